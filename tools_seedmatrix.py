#!/usr/bin/env python3
"""Development tool: apply every seeded change to a scratch worktree and run the property's quick check on it.

Writes seeded/MATRIX.json (which seeded change is caught by which check at this commit).  Never run by a
MANIFEST command; the worktrees live under /tmp and are removed after each run.
"""
import json
import os
import subprocess
import sys
import time

HERE = os.path.dirname(os.path.abspath(__file__))


def sh(*cmd, **kw):
    return subprocess.run(cmd, capture_output=True, text=True, **kw)


def main(only=None):
    out = {}
    path = os.path.join(HERE, "seeded", "MATRIX.json")
    if os.path.exists(path):
        out = json.load(open(path))
    for name in sorted(os.listdir(os.path.join(HERE, "seeded"))):
        d = os.path.join(HERE, "seeded", name)
        if not os.path.isdir(d) or (only and name not in only):
            continue
        meta = json.load(open(os.path.join(d, "meta.json")))
        props = [meta["property"]] + [p for p in meta.get("also", [])]
        patches = sorted(f for f in os.listdir(d) if f.startswith("patch") and f.endswith(".diff"))
        patch = next((p for p in patches if "adapted" in p), "patch.diff")
        wt = f"/tmp/seedmx-{name}"
        sh("git", "-C", "/repo", "worktree", "remove", "--force", wt)
        assert sh("git", "-C", "/repo", "worktree", "add", "--detach", wt, "HEAD").returncode == 0
        try:
            applied = sh("git", "-C", wt, "apply", os.path.join(d, patch))
            if applied.returncode != 0:
                out[name] = {"error": "patch does not apply: " + applied.stderr[:200]}
                continue
            for prop in props:
                t0 = time.time()
                env = dict(os.environ, VERIF_REPO=wt, VERIF_OUT=f"/tmp/seedmx-out/{name}", VERIF_SEED="0")
                r = sh("/venv/bin/python", "-W", "ignore", "-m", "checks", prop, "--tier", "quick", cwd=HERE, env=env)
                lines = [l for l in r.stdout.splitlines() if not l.startswith("KNOWN-FINDING")]
                oracles = set()
                for l in lines:
                    if l.startswith("VIOLATION") and "replay=" in l:
                        try:
                            oracles.add(json.load(open(l.split("replay=")[1].strip()))["oracle"])
                        except Exception:
                            pass
                out.setdefault(name, {})[prop] = {"exit": r.returncode, "violation_lines": sum(l.startswith("VIOLATION") for l in lines),
                                                  "oracles": sorted(oracles), "summary": lines[-1][:200] if lines else "",
                                                  "wall_s": int(time.time() - t0), "repo_head": sh("git", "-C", "/repo", "rev-parse", "--short", "HEAD").stdout.strip()}
                print(name, prop, out[name][prop]["exit"], sorted(oracles), flush=True)
        finally:
            sh("git", "-C", "/repo", "worktree", "remove", "--force", wt)
            sh("rm", "-rf", f"/tmp/seedmx-out/{name}")
        json.dump(out, open(path, "w"), indent=1, sort_keys=True)


if __name__ == "__main__":
    main(set(sys.argv[1:]) or None)
