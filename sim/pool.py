"""Fork-per-run process pool (DESIGN.md 2.8).

A pool process warms a scenario once (fills the parser memo), then forks one child per plan:
the child inherits the warm memo and an interpreter state untouched by earlier runs, reports
through a pipe and ``_exit``s.  A child that exceeds its wall budget is killed and reported as
a *harness* failure -- never as a pass, never as a violation.
"""
import concurrent.futures
import concurrent.futures.process
import faulthandler
import multiprocessing
import os
import pickle
import select
import signal
import sys
import time
import traceback


def _child(fn, payload, wfd, timeout):
    try:
        faulthandler.dump_traceback_later(max(timeout - 2, 1), exit=False, file=sys.stderr)
        result = fn(payload)
        data = pickle.dumps(("ok", result))
    except BaseException:  # noqa - everything is reported to the parent
        data = pickle.dumps(("harness_error", traceback.format_exc()[-4000:]))
    try:
        with os.fdopen(wfd, "wb") as handle:
            handle.write(data)
    finally:
        os._exit(0)


def run_forked(fn, payload, timeout=120.0):
    """Run ``fn(payload)`` in a forked child; returns ("ok", result) or ("harness_error", text)."""
    rfd, wfd = os.pipe()
    sys.stdout.flush()
    sys.stderr.flush()
    pid = os.fork()
    if pid == 0:
        os.close(rfd)
        _child(fn, payload, wfd, timeout)
    os.close(wfd)
    chunks = []
    deadline = time.monotonic() + timeout
    status = None
    try:
        while True:
            remaining = deadline - time.monotonic()
            if remaining <= 0:
                os.kill(pid, signal.SIGKILL)
                status = ("harness_error", f"child exceeded its wall budget of {timeout}s")
                break
            ready, _, _ = select.select([rfd], [], [], min(remaining, 1.0))
            if ready:
                data = os.read(rfd, 1 << 20)
                if not data:
                    break
                chunks.append(data)
    finally:
        os.close(rfd)
        try:
            os.waitpid(pid, 0)
        except ChildProcessError:
            pass
    if status is not None:
        return status
    if not chunks:
        return ("harness_error", "child died without reporting")
    try:
        return pickle.loads(b"".join(chunks))
    except Exception:
        return ("harness_error", "child report could not be decoded")


def _run_chunk(args):
    fn, warm, payloads, timeout, fork = args
    out = []
    if warm is not None and payloads:
        # warming runs in this long-lived process: bound it with a repeating alarm (code that never returns must
        # not hang the whole check; the runs themselves are bounded by the wall budget of their forked child)
        def _alarm(signum, frame):
            raise TimeoutError("warm-up exceeded its wall budget")
        old_handler = signal.signal(signal.SIGALRM, _alarm)
        signal.setitimer(signal.ITIMER_REAL, max(float(timeout), 30.0), 2.0)
        try:
            warm(payloads[0][1])
        except BaseException:
            out_err = traceback.format_exc()[-2000:]
            # warming is an optimisation only; report but continue
            sys.stderr.write("warm-up failed: " + out_err + "\n")
        finally:
            signal.setitimer(signal.ITIMER_REAL, 0)
            signal.signal(signal.SIGALRM, old_handler)
    for index, payload in payloads:
        t0 = time.monotonic()
        if fork:
            status, result = run_forked(fn, payload, timeout)
        else:
            try:
                status, result = "ok", fn(payload)
            except BaseException:
                status, result = "harness_error", traceback.format_exc()[-4000:]
        out.append((index, status, result, time.monotonic() - t0))
    return out


def run_batch(fn, payloads, keys=None, warm=None, nproc=None, timeout=120.0, chunk=8,
              deadline=None, fork=True, on_result=None):
    """Run ``fn`` over ``payloads`` in parallel.

    :param keys: optional grouping key per payload; payloads of one key go to the same
                 chunk(s) so that a warm-up is shared
    :param deadline: monotonic time after which no new chunk is started
    :returns: list of (index, status, result, wall) in index order for the payloads that ran
    """
    nproc = nproc or os.cpu_count() or 4
    indexed = list(enumerate(payloads))
    groups = {}
    for (index, payload) in indexed:
        key = keys[index] if keys is not None else None
        groups.setdefault(key, []).append((index, payload))
    chunks = []
    for key, items in groups.items():
        for i in range(0, len(items), chunk):
            chunks.append(items[i:i + chunk])
    # interleave groups so that all processes get work from the start
    results = []
    ctx = multiprocessing.get_context("fork")
    skipped = 0
    with concurrent.futures.ProcessPoolExecutor(max_workers=nproc, mp_context=ctx) as pool:
        pending = set()
        it = iter(chunks)
        exhausted = False
        while True:
            while not exhausted and len(pending) < nproc * 2:
                if deadline is not None and time.monotonic() > deadline:
                    exhausted = True
                    skipped = sum(len(c) for c in it)
                    break
                try:
                    c = next(it)
                except StopIteration:
                    exhausted = True
                    break
                try:
                    pending.add(pool.submit(_run_chunk, (fn, warm, c, timeout, fork)))
                except concurrent.futures.process.BrokenProcessPool as error:
                    # a pool process was killed (e.g. out of memory): a harness failure, never a verdict
                    results.append((-1, "harness_error", f"process pool broken: {error!r}", 0.0))
                    exhausted = True
                    skipped = sum(len(rest) for rest in it)
                    break
            if not pending:
                break
            done, pending = concurrent.futures.wait(pending, return_when=concurrent.futures.FIRST_COMPLETED)
            for fut in done:
                try:
                    chunk_results = fut.result()
                except BaseException as error:  # a pool process died
                    chunk_results = [(-1, "harness_error", f"pool process failed: {error!r}", 0.0)]
                for r in chunk_results:
                    results.append(r)
                    if on_result is not None:
                        on_result(r)
    results.sort(key=lambda r: r[0])
    return results, skipped
