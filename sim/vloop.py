"""Virtual-time asyncio event loop (DESIGN.md 2.2).

``select(timeout)`` never blocks: it advances the loop's own clock by ``timeout``.
Timers that are due at the same instant are ordered by a plan-decided epsilon,
never by the heap's arbitrary order.
"""
import asyncio
import selectors


class SimDeadlock(Exception):
    """Nothing runnable and no timer pending: every task waits for another one."""


class StepBudgetExceeded(Exception):
    """The run used more loop iterations than its (generous) budget."""


class VirtualTimeBudgetExceeded(Exception):
    """The run used more virtual time than its (generous) budget."""


class SpinDetected(Exception):
    """A task keeps computing without ever awaiting (livelock inside one loop iteration)."""


class _NullSelector(selectors.BaseSelector):
    def __init__(self):
        self._map = {}
        self.loop = None

    def register(self, fileobj, events, data=None):
        key = selectors.SelectorKey(fileobj, fileobj if isinstance(fileobj, int) else fileobj.fileno(), events, data)
        self._map[fileobj] = key
        return key

    def unregister(self, fileobj):
        return self._map.pop(fileobj)

    def modify(self, fileobj, events, data=None):
        self.unregister(fileobj)
        return self.register(fileobj, events, data)

    def select(self, timeout=None):
        if timeout is None:
            raise SimDeadlock("no runnable task and no pending timer")
        if timeout > 0:
            self.loop._vnow += timeout
        return []

    def get_map(self):
        return self._map

    def close(self):
        self._map.clear()


class VirtualLoop(asyncio.SelectorEventLoop):
    """An asyncio loop whose clock is owned by the simulator."""

    def __init__(self, tie=None, step_budget=2_000_000, vtime_budget=None):
        sel = _NullSelector()
        super().__init__(sel)
        sel.loop = self
        self._vnow = 0.0
        self._clock_resolution = 1e-9
        self.steps = 0
        self.step_budget = step_budget
        self.vtime_budget = vtime_budget
        #: callable (task name, k) -> float in [0, 1); decides order of equal-time timers
        self._tie = tie
        self._tie_counts = {}
        self.timers = 0
        #: number of instrumented calls made by tasks since the last loop iteration
        self.spin = 0
        self.spin_limit = 20000
        self.max_spin = 0

    def time(self):
        return self._vnow

    def call_at(self, when, callback, *args, context=None):
        self.timers += 1
        if self._tie is not None:
            task = asyncio.current_task(self)
            name = task.get_name() if task is not None else "-"
            k = self._tie_counts.get(name, 0)
            self._tie_counts[name] = k + 1
            when = when + self._tie(name, k) * 1e-6
        return super().call_at(when, callback, *args, context=context)

    def _run_once(self):
        self.steps += 1
        if self.steps > self.step_budget:
            raise StepBudgetExceeded(f"more than {self.step_budget} loop iterations")
        if self.vtime_budget is not None and self._vnow > self.vtime_budget:
            raise VirtualTimeBudgetExceeded(f"more than {self.vtime_budget} virtual seconds")
        self.spin = 0
        super()._run_once()

    def tick(self, what=""):
        """Called from instrumented functions of the system under test."""
        self.spin += 1
        if self.spin > self.max_spin:
            self.max_spin = self.spin
        if self.spin > self.spin_limit:
            self.spin = 0
            raise SpinDetected(f"{self.spin_limit} traversal steps without awaiting anything ({what})")
