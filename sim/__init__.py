"""Deterministic-simulation core shared by all engines (see DESIGN.md section 2)."""
