"""Memoisation of the (third party, pure) Cartesian parser (DESIGN.md 2.8).

``params_parser.Reparsable.get_parser`` builds a ``cartesian_config.Parser``, feeds it a
sequence of ``parse_string``/``parse_file`` calls and enumerates ``get_dicts()``.  The result
is a pure function of that call sequence and of the files read.  ``MemoParser`` records the
sequence and caches the produced dictionaries, lazily (callers often take only the first).
Everything in ``params_parser.py`` itself stays real.
"""
import hashlib
import os
import types

from virttest import cartesian_config as _real

_CACHE = {}
_FILE_SIG = {}
STATS = {"hit": 0, "miss": 0, "dicts": 0}
ENABLED = True


def _dir_signature(dirname):
    """Hash of every regular file in the directory of a parsed file (covers includes)."""
    sig = _FILE_SIG.get(dirname)
    if sig is None:
        h = hashlib.sha256()
        try:
            names = sorted(os.listdir(dirname))
        except OSError:
            names = []
        for name in names:
            path = os.path.join(dirname, name)
            if os.path.isfile(path):
                h.update(name.encode())
                with open(path, "rb") as handle:
                    h.update(hashlib.sha256(handle.read()).digest())
        sig = h.hexdigest()
        _FILE_SIG[dirname] = sig
    return sig


def _file_signature(filename):
    # the file itself plus everything beside it (include statements are relative)
    try:
        with open(filename, "rb") as handle:
            own = hashlib.sha256(handle.read()).hexdigest()
    except OSError:
        own = "missing"
    return own + ":" + _dir_signature(os.path.dirname(filename))


def rss_mb():
    try:
        with open("/proc/self/statm") as handle:
            return int(handle.read().split()[1]) * os.sysconf("SC_PAGE_SIZE") / 1e6
    except (OSError, ValueError, IndexError):
        return 0.0


def trim(limit_mb=700.0):
    """Bound the memory of a long-lived pool process: drop the whole memo once the process grows beyond the limit."""
    if rss_mb() > limit_mb:
        import gc
        _CACHE.clear()
        _FILE_SIG.clear()
        gc.collect()
        STATS["trims"] = STATS.get("trims", 0) + 1
        return True
    return False


def forget_files():
    """Drop file signatures (call when configuration files may have changed)."""
    _FILE_SIG.clear()


class _Entry:
    __slots__ = ("dicts", "gen")

    def __init__(self, gen):
        self.dicts = []
        self.gen = gen


class MemoParser:
    """Drop-in for ``cartesian_config.Parser`` for the calls params_parser makes."""

    def __init__(self, *args, **kwargs):
        self._args = (args, tuple(sorted(kwargs.items())))
        self._calls = []

    def parse_string(self, s):
        self._calls.append(("s", s))

    def parse_file(self, filename):
        self._calls.append(("f", filename, _file_signature(filename)))

    def _real_parser(self):
        parser = _real.Parser(*self._args[0], **dict(self._args[1]))
        for call in self._calls:
            if call[0] == "s":
                parser.parse_string(call[1])
            else:
                parser.parse_file(call[1])
        return parser

    def get_dicts(self, *args, **kwargs):
        if not ENABLED or args or kwargs:
            yield from self._real_parser().get_dicts(*args, **kwargs)
            return
        key = (self._args, tuple(self._calls))
        entry = _CACHE.get(key)
        if entry is None:
            STATS["miss"] += 1
            entry = _Entry(self._real_parser().get_dicts())
            _CACHE[key] = entry
        else:
            STATS["hit"] += 1
        i = 0
        while True:
            if i < len(entry.dicts):
                yield _copy(entry.dicts[i])
                i += 1
                continue
            if entry.gen is None:
                return
            try:
                d = next(entry.gen)
            except StopIteration:
                entry.gen = None
                return
            STATS["dicts"] += 1
            entry.dicts.append(d)


def _copy(d):
    new = dict(d)
    for key in ("_name_map_file", "_short_name_map_file"):
        if key in new and isinstance(new[key], dict):
            new[key] = dict(new[key])
    if "dep" in new and isinstance(new["dep"], list):
        new["dep"] = list(new["dep"])
    return new


def install():
    """Replace the parser class seen by ``avocado_i2n.params_parser`` only."""
    from avocado_i2n import params_parser

    if getattr(params_parser.cartesian_config, "_verif_memo", False):
        return
    shim = types.SimpleNamespace(**{k: getattr(_real, k) for k in dir(_real) if not k.startswith("__")})
    shim.Parser = MemoParser
    shim._verif_memo = True
    params_parser.cartesian_config = shim
