"""Keyed decisions: one integer decides everything, by stable key, not by stream position.

A plan is plain JSON (DESIGN.md 2.1).  ``Plan.pick(key, options, default)`` returns
``decisions[key]`` if the plan pins it, the neutral ``default`` if the key (or one of its
prefixes) is listed in ``neutral`` / the plan says ``defaults_only``, and otherwise a value
derived from ``H(seed, key)``.  Removing or neutralising one decision therefore never shifts
any other decision, which is what lets the minimiser converge, and logging never draws
randomness.
"""
import hashlib
import json
import struct


def H(*parts):
    """64-bit hash of the parts (stable across processes and PYTHONHASHSEED)."""
    h = hashlib.blake2b(digest_size=8)
    for part in parts:
        h.update(repr(part).encode())
        h.update(b"\x00")
    return struct.unpack("<Q", h.digest())[0]


def unit(*parts):
    """Uniform float in [0, 1) from the parts."""
    return (H(*parts) >> 11) / float(1 << 53)


def derive_seed(verif_seed, prop, tier, i):
    return H("seed", int(verif_seed), prop, tier, int(i)) & 0x7FFFFFFFFFFF


class Plan:
    def __init__(self, data):
        self.data = data
        self.seed = data.get("seed", 0)
        self.decisions = data.setdefault("decisions", {})
        self.neutral = set(data.setdefault("neutral", []))
        self.defaults_only = bool(data.get("defaults_only", False))
        #: keys consulted during the run with the value they took and whether it was neutral
        self.consulted = {}

    # -- lookups -------------------------------------------------------------------------
    def _is_neutral(self, key):
        if self.defaults_only:
            return True
        if key in self.neutral:
            return True
        # a prefix "dur/" neutralises a whole family
        for n in self.neutral:
            if n.endswith("/") and key.startswith(n):
                return True
        return False

    def pick(self, key, options, default=None):
        """Pick one of ``options`` (a list) for ``key``."""
        if key in self.decisions:
            value = self.decisions[key]
            self.consulted[key] = value
            return value
        if default is not None and self._is_neutral(key):
            self.consulted[key] = default
            return default
        value = options[H(self.seed, key) % len(options)]
        self.consulted[key] = value
        return value

    def weighted(self, key, weighted_options, default=None):
        """Pick from ``[(value, weight), ...]``."""
        if key in self.decisions:
            value = self.decisions[key]
            self.consulted[key] = value
            return value
        if default is not None and self._is_neutral(key):
            self.consulted[key] = default
            return default
        total = float(sum(w for _, w in weighted_options))
        x = unit(self.seed, key) * total
        acc = 0.0
        value = weighted_options[-1][0]
        for v, w in weighted_options:
            acc += w
            if x < acc:
                value = v
                break
        self.consulted[key] = value
        return value

    def chance(self, key, p, default=False):
        if key in self.decisions:
            value = bool(self.decisions[key])
            self.consulted[key] = value
            return value
        if self._is_neutral(key):
            self.consulted[key] = default
            return default
        value = unit(self.seed, key) < p
        self.consulted[key] = value
        return value

    def real(self, key, default=None):
        """Uniform float in [0,1) for ``key``."""
        if key in self.decisions:
            value = float(self.decisions[key])
        elif default is not None and self._is_neutral(key):
            value = default
        else:
            value = unit(self.seed, key)
        # ties are not recorded in ``consulted`` (too many, and never minimised one by one)
        return value

    def to_json(self):
        return json.dumps(self.data, sort_keys=True, indent=1)
