"""Engine C: pool transfers and the pool lock under a baton-passing scheduler (DESIGN.md 5).

Real code: ``pool.image_lock`` and ``TransferOps.{download,upload,delete,compare}_{local,link}``.
Every simulated process is a real thread that only runs while it holds the baton; it hands the
baton back at every intercepted seam call (``fcntl.lockf``, ``time.sleep``, each chunk of
``shutil.copy``, ``os.unlink``/``symlink``/``makedirs``, ``crypto.hash_file``).  The scheduler
picks who runs next from the plan, so one plan is one execution.  Files are real files in a
scratch directory; the record-lock table, the clock and the copy are owned by the simulator.
"""
import errno
import fcntl as real_fcntl
import hashlib
import os
import shutil as real_shutil
import threading
import types

from sim.plan import Plan

CHUNK = 4


class Frozen(BaseException):
    """Raised inside a sim-process that crashed (never caught by the code under test)."""


class InjectedError(OSError):
    pass


class Proc:
    def __init__(self, pid, script):
        self.pid = pid
        self.script = script
        self.sem = threading.Semaphore(0)
        self.wake = 0.0
        self.done = False
        self.frozen = False
        self.thread = None
        self.results = []
        self.current = None       # (op index, op)
        self.yields = 0           # yield points passed inside the current operation
        self.in_cs = set()        # pool paths whose lock it holds (as the fake kernel sees it)
        self.cs_yields = -1       # yield points passed since the lock was acquired (-1: not inside)
        self.copies = 0
        self.open_files = {}      # id(file object) -> path, for lock release on close


class Sched:
    def __init__(self, plan, root):
        self.plan = plan
        self.root = root
        self.procs = {}
        self.cur = None
        self.now = 0.0
        self.main = threading.Semaphore(0)
        self.events = []
        self.seq = 0
        self.locks = {}           # inode of the lock file -> owner pid
        self.violations = []
        self.steps = 0
        self.max_steps = 20000
        self.faults = {}
        self.probes = {}
        self.pool_versions = {}   # pool path -> list of contents it has held (completed writes and torn ones)
        self.touch = {}           # pool path -> pid currently reading/writing it in a transfer
        self.yield_log = {}       # (pid, op index) -> list of yield kinds (for fault enumeration)
        self.tids = {}

    def me(self):
        return self.tids.get(threading.get_ident(), self.cur)

    # -- bookkeeping ----------------------------------------------------------------------
    def log(self, kind, **kw):
        self.seq += 1
        ev = {"seq": self.seq, "t": round(self.now, 3), "pid": self.me(), "kind": kind}
        ev.update(kw)
        self.events.append(ev)

    def fault(self, name):
        self.faults[name] = self.faults.get(name, 0) + 1

    def probe(self, name):
        self.probes[name] = self.probes.get(name, 0) + 1

    def violate(self, oracle, signature, **detail):
        self.violations.append({"property": "C14", "oracle": oracle, "signature": signature,
                                "detail": dict(detail, seq=self.seq, t=self.now)})

    def digest(self):
        h = hashlib.sha256()
        for ev in self.events:
            h.update(repr(sorted(ev.items())).encode())
        return h.hexdigest()[:20]

    # -- the baton ------------------------------------------------------------------------
    def yield_point(self, kind, sleep=0.0, path=None):
        """Called by a sim-process at every intercepted seam; may freeze it (crash)."""
        p = self.procs[self.me()]
        if p.frozen:
            raise Frozen()
        n = p.yields
        p.yields += 1
        if p.current is not None:
            self.yield_log.setdefault((p.pid, p.current[0]), []).append(kind)
        self.log("yield", what=kind, n=n, path=self.rel(path))
        if p.in_cs:
            p.cs_yields += 1
        crash = self.plan.data.get("crash")
        if crash and crash["pid"] == p.pid and crash["op"] == (p.current[0] if p.current else None) \
                and ((crash.get("yield") == n) or (p.in_cs and crash.get("cs_yield") == p.cs_yields)):
            p.frozen = True
            self.fault("crash-in-operation")
            if p.in_cs:
                self.fault("crash-in-critical-section")
            self.log("crash", what=kind, n=n, holding=sorted(self.rel(x) for x in p.in_cs))
            self.release_all(p.pid)
            self.main.release()
            p.sem.acquire()          # never released again, except at teardown
            raise Frozen()
        p.wake = self.now + sleep
        self.main.release()
        p.sem.acquire()
        if p.frozen:
            raise Frozen()

    def release_all(self, pid):
        for lockfile, owner in list(self.locks.items()):
            if owner == pid:
                del self.locks[lockfile]
        self.procs[pid].in_cs.clear()
        for path, who in list(self.touch.items()):
            if who == pid:
                del self.touch[path]

    def rel(self, path):
        if path is None:
            return None
        return os.path.relpath(path, self.root) if str(path).startswith(self.root) else str(path)

    def run(self):
        for p in self.procs.values():
            p.thread = threading.Thread(target=self._body, args=(p,), daemon=True)
            p.thread.start()
        while True:
            live = [p for p in self.procs.values() if not p.done and not p.frozen]
            if not live:
                break
            self.steps += 1
            if self.steps > self.max_steps:
                self.violate("no-progress", "processes did not finish within the step budget",
                             live=[p.pid for p in live])
                break
            ready = sorted([p for p in live if p.wake <= self.now + 1e-12], key=lambda p: p.pid)
            if not ready:
                self.now = min(p.wake for p in live)
                continue
            pick = self.plan.pick(f"pick/{self.steps}", [p.pid for p in ready], default=ready[0].pid)
            if pick not in [p.pid for p in ready]:
                pick = ready[0].pid
            self.cur = pick
            self.procs[pick].sem.release()
            self.main.acquire()
        # teardown: wake frozen threads so that they unwind
        for p in self.procs.values():
            if p.frozen and p.thread.is_alive():
                p.sem.release()
        for p in self.procs.values():
            p.thread.join(timeout=5)

    def _body(self, p):
        self.tids[threading.get_ident()] = p.pid
        p.sem.acquire()
        try:
            for index, op in enumerate(p.script):
                p.current = (index, op)
                p.yields = 0
                self.run_op(p, index, op)
        except Frozen:
            pass
        finally:
            p.done = not p.frozen
            p.current = None
            self.main.release()

    # -- operations and their oracles ---------------------------------------------------------
    def run_op(self, p, index, op):
        from avocado_i2n.states import pool
        from virttest.utils_params import Params
        params = Params({"update_pool_timeout": str(op.get("timeout", 300))})
        cache = os.path.join(self.root, op["cache"])
        pool_path = os.path.join(self.root, op["pool"])
        kind = op["op"]
        before_cache = read(cache)
        before_pool = read(pool_path)
        cache_was_link = os.path.islink(cache)
        self.log("op.begin", op=kind, index=index, cache=op["cache"], pool=op["pool"])
        outcome, error = "ok", None
        copies_before = p.copies
        try:
            if kind == "download":
                pool.TransferOps.download_local(cache, pool_path, params)
            elif kind == "upload":
                pool.TransferOps.upload_local(cache, pool_path, params)
            elif kind == "delete":
                pool.TransferOps.delete_local(pool_path, params)
            elif kind == "download_link":
                pool.TransferOps.download_link(cache, pool_path, params)
            elif kind == "upload_link":
                pool.TransferOps.upload_link(cache, pool_path, params)
            elif kind == "stall":
                # a process that takes the lock and sits on it (slow transfer / stopped process)
                with pool.image_lock(pool_path, int(op.get("timeout", 300))):
                    self.yield_point("stall", sleep=op["hold"])
            else:
                raise AssertionError(kind)
        except Frozen:
            raise
        except BaseException as e:  # noqa - classified below
            outcome, error = type(e).__name__, str(e).replace(self.root, "<root>")[:200]
        copied = p.copies > copies_before
        self.log("op.end", op=kind, index=index, outcome=outcome, error=error)
        p.results.append((kind, outcome))
        if p.in_cs:
            self.violate("lock-leaked", f"{kind} returned while still holding the pool lock",
                         holding=sorted(self.rel(x) for x in p.in_cs), outcome=outcome)
        if self.locks_of(p.pid):
            self.violate("lock-leaked", f"{kind} returned while still holding the pool lock",
                         outcome=outcome)
        self.judge(p, kind, outcome, error, cache, pool_path, before_cache, before_pool, cache_was_link, copied, op)

    def locks_of(self, pid):
        return [inode for inode, owner in self.locks.items() if owner == pid]

    def judge(self, p, kind, outcome, error, cache, pool_path, before_cache, before_pool, cache_was_link, copied, op):
        injected = outcome == "InjectedError"
        if injected:
            return  # the transfer failed on an injected fault: only the lock release is checked (above)
        timeout = int(op.get("timeout", 300))
        busy = len([ev for ev in self.events if ev["kind"] == "lock.busy" and ev["pid"] == p.pid
                    and ev.get("index") == p.current[0]])
        if outcome == "RuntimeError" and "took more than" in (error or ""):
            self.probe("lock-timeout")
            if busy < timeout:
                self.violate("spurious-timeout", f"{kind} gave up although the lock had not been busy for its whole timeout",
                             busy_polls=busy, timeout=timeout)
            if copied:
                self.violate("operated-after-timeout", f"{kind} touched the pool although waiting for its lock timed out")
            if kind in ("download", "download_link") and (
                    os.path.islink(cache) != cache_was_link or (not cache_was_link and read(cache) != before_cache)):
                self.violate("operated-after-timeout", f"{kind} touched the cache although waiting for its lock timed out")
            return
        if busy >= timeout and kind != "stall":
            self.violate("no-timeout", f"{kind} went on although the lock stayed busy for its whole timeout",
                         busy_polls=busy, timeout=timeout, outcome=outcome)
        if kind == "download":
            if outcome == "ok":
                after = read(cache)
                versions = self.pool_versions.get(pool_path, [])
                if after != read(pool_path) and after not in versions:
                    self.violate("download-not-identical", "a completed download left the cache different from every pool version",
                                 cache=after, pool=read(pool_path))
            elif outcome == "FileNotFoundError":
                pass  # nothing in the pool to download
            else:
                self.violate("unexpected-error", f"download raised {outcome}", error=error)
        elif kind == "upload":
            if outcome == "ok":
                if not cache_was_link and read(cache) != before_cache:
                    self.violate("source-changed", "an upload changed its source")
            elif outcome == "FileNotFoundError":
                pass
            else:
                self.violate("unexpected-error", f"upload raised {outcome}", error=error)
        elif kind == "delete":
            if outcome not in ("ok", "FileNotFoundError"):
                self.violate("unexpected-error", f"delete raised {outcome}", error=error)
        elif kind == "download_link":
            had_data = before_cache is not None and not cache_was_link
            if had_data and before_cache != before_pool:
                # real data that differs from the pool must be kept safe
                if outcome != "RuntimeError":
                    # legal alternative: the pool changed meanwhile so that both match now
                    if not (os.path.exists(cache) and not os.path.islink(cache) and read(cache) == before_cache):
                        self.violate("data-replaced-by-link", "a cache holding real data was replaced by a link",
                                     outcome=outcome)
                if os.path.islink(cache):
                    self.violate("data-replaced-by-link", "a cache holding real data was replaced by a link", outcome=outcome)
            elif outcome == "ok":
                nothing_to_link = read(pool_path) is None and before_cache is None and not cache_was_link
                if not had_data and not nothing_to_link and not (
                        os.path.islink(cache) and os.path.realpath(cache) == os.path.realpath(pool_path)):
                    self.violate("link-not-made", "a completed link download did not leave a link to the pool file")
            elif outcome not in ("RuntimeError", "FileNotFoundError"):
                self.violate("unexpected-error", f"download_link raised {outcome}", error=error)
        elif kind == "upload_link":
            if cache_was_link:
                if outcome != "ValueError":
                    self.violate("link-uploaded", "a link was accepted for upload in link mode", outcome=outcome)
            elif outcome not in ("ok", "FileNotFoundError"):
                self.violate("unexpected-error", f"upload_link raised {outcome}", error=error)


def read(path):
    try:
        if os.path.islink(path) and not os.path.exists(path):
            return None
        with open(path, "rb") as handle:
            return handle.read()
    except (FileNotFoundError, IsADirectoryError, NotADirectoryError):
        return None


# --------------------------------------------------------------------------------------------
# fakes installed into ``avocado_i2n.states.pool``'s namespace
# --------------------------------------------------------------------------------------------

class FakeFcntl:
    LOCK_EX, LOCK_NB, LOCK_UN, LOCK_SH = real_fcntl.LOCK_EX, real_fcntl.LOCK_NB, real_fcntl.LOCK_UN, real_fcntl.LOCK_SH

    def __init__(self, sched):
        self.s = sched

    def lockf(self, fd, cmd, *a):
        s = self.s
        path = fd.name
        pid = s.me()
        p = s.procs[pid]
        if p.frozen:
            return  # a dead process unwinding: the kernel already dropped its locks
        s.yield_point("lockf", path=path)
        # POSIX record locks belong to the inode the descriptor refers to, not to the path
        try:
            inode = os.fstat(fd.fileno()).st_ino
        except (OSError, ValueError):
            inode = ("closed", path)
        pool_path = path[:-len(".lock")]
        if cmd & self.LOCK_UN:
            if s.locks.get(inode) == pid:
                del s.locks[inode]
            p.in_cs.discard(pool_path)
            s.log("lock.release", path=s.rel(path))
            return
        owner = s.locks.get(inode)
        if owner is not None and owner != pid:
            if cmd & self.LOCK_NB:
                s.log("lock.busy", path=s.rel(path), holder=owner, index=p.current[0] if p.current else None)
                s.probe("lock-contended")
                raise BlockingIOError(errno.EAGAIN, "Resource temporarily unavailable")
            s.violate("blocking-lock", "the pool lock was requested in blocking mode (no finite timeout possible)")
            raise BlockingIOError(errno.EAGAIN, "Resource temporarily unavailable")
        s.locks[inode] = pid
        others = [q.pid for q in s.procs.values() if q.pid != pid and not q.frozen and pool_path in q.in_cs]
        if others:
            s.violate("lock-not-exclusive", "two processes were granted the lock of the same pool file at the same time",
                      path=s.rel(pool_path), others=others)
        p.in_cs.add(pool_path)
        p.cs_yields = -1
        s.log("lock.acquire", path=s.rel(path))


class FakeTime:
    def __init__(self, sched):
        self.s = sched

    def sleep(self, seconds):
        jump = self.s.plan.data.get("clock_jump")
        if jump and self.s.plan.chance(f"jump/{self.s.steps}", jump["p"]):
            self.s.fault("clock-jump")
            seconds = seconds * jump["factor"]
        self.s.yield_point("sleep", sleep=seconds)

    def time(self):
        return self.s.now


class FakeShutil:
    def __init__(self, sched):
        self.s = sched

    def __getattr__(self, name):
        return getattr(real_shutil, name)

    def copy(self, src, dst):
        s = self.s
        pid = s.me()
        p = s.procs[pid]
        s.probe("copy")
        p.copies += 1
        s.check_owner(src, dst, "copy")
        data = read(src)
        if data is None:
            raise FileNotFoundError(errno.ENOENT, "No such file or directory", src)
        err = s.plan.data.get("copy_error")
        fail_after = None
        if err and err["pid"] == pid and err["op"] == (p.current[0] if p.current else None):
            fail_after = err["chunks"]
        s.log("copy.begin", src=s.rel(src), dst=s.rel(dst), size=len(data))
        s.mark_touch(src, dst, pid)
        try:
            with open(dst, "wb") as out:
                written = 0
                for i in range(0, max(len(data), 1), CHUNK):
                    if fail_after is not None and written >= fail_after:
                        s.fault("copy-error")
                        out.flush()
                        s.note_pool_version(dst)
                        raise InjectedError(errno.ENOSPC, "No space left on device (injected)")
                    # re-read the source chunk at this instant: a concurrent writer tears the copy
                    chunk = (read(src) or b"")[i:i + CHUNK]
                    out.write(chunk)
                    out.flush()
                    written += 1
                    s.yield_point("copy.chunk", path=dst)
                    s.check_owner(src, dst, "copy")
        finally:
            s.unmark_touch(src, dst, pid)
            s.note_pool_version(dst)
        final = read(dst)
        if final != read(src):
            s.violate("torn-copy", "a completed copy left the destination different from the source",
                      src=s.rel(src), dst=s.rel(dst))
        s.log("copy.end", src=s.rel(src), dst=s.rel(dst))
        return dst


class FakeOs:
    def __init__(self, sched):
        self.s = sched
        self.path = os.path

    def __getattr__(self, name):
        return getattr(os, name)

    def unlink(self, path):
        s = self.s
        s.yield_point("unlink", path=path)
        if is_pool(s, path):
            s.check_owner(None, path, "unlink")
            other = s.touch.get(path)
            if other is not None and other != s.me():
                s.violate("overlap", "a pool file was deleted while another process was transferring it",
                          path=s.rel(path), other=other)
        err = s.plan.data.get("unlink_error")
        p = s.procs[s.me()]
        if err and err["pid"] == s.me() and err["op"] == (p.current[0] if p.current else None):
            s.fault("unlink-error")
            raise InjectedError(errno.EIO, "Input/output error (injected)")
        os.unlink(path)
        s.log("unlink", path=s.rel(path))

    def symlink(self, src, dst):
        self.s.yield_point("symlink", path=dst)
        os.symlink(src, dst)
        self.s.log("symlink", src=self.s.rel(src), dst=self.s.rel(dst))

    def makedirs(self, path, *a, **kw):
        self.s.yield_point("makedirs", path=path)
        return os.makedirs(path, *a, **kw)


class FakeCrypto:
    def __init__(self, sched):
        self.s = sched

    def hash_file(self, path, size=None, algorithm="md5"):
        s = self.s
        s.yield_point("hash", path=path)
        if is_pool(s, path):
            s.check_owner(None, path, "hash")
        err = s.plan.data.get("hash_error")
        p = s.procs[s.me()]
        if err and err["pid"] == s.me() and err["op"] == (p.current[0] if p.current else None) \
                and err.get("nth", 0) == p.__dict__.setdefault("_hashes", {}).get(p.current[0], 0):
            s.fault("hash-error")
            raise InjectedError(errno.EIO, "Input/output error (injected)")
        p.__dict__.setdefault("_hashes", {})[p.current[0] if p.current else None] = \
            p.__dict__.setdefault("_hashes", {}).get(p.current[0] if p.current else None, 0) + 1
        data = read(path)
        return hashlib.md5(data or b"").hexdigest()


def is_pool(s, path):
    return os.path.relpath(path, s.root).startswith("pool")


def _check_owner(self, src, dst, what):
    """Whoever touches a pool file in a transfer must hold that file's lock."""
    for path in (src, dst):
        if path is None or not is_pool(self, path):
            continue
        if path not in self.procs[self.me()].in_cs:
            self.violate("unlocked-access", f"a pool file was accessed ({what}) without holding its lock",
                         path=self.rel(path))


def _mark_touch(self, src, dst, pid):
    for path in (src, dst):
        if is_pool(self, path):
            other = self.touch.get(path)
            if other is not None and other != pid:
                self.violate("overlap", "two processes transferred the same pool file at the same time",
                             path=self.rel(path), other=other)
            self.touch[path] = pid


def _unmark_touch(self, src, dst, pid):
    for path in (src, dst):
        if self.touch.get(path) == pid:
            del self.touch[path]


def _note_pool_version(self, path):
    if is_pool(self, path):
        data = read(path)
        if data is not None:
            self.pool_versions.setdefault(path, []).append(data)


Sched.check_owner = _check_owner
Sched.mark_touch = _mark_touch
Sched.unmark_touch = _unmark_touch
Sched.note_pool_version = _note_pool_version


def install(sched):
    from avocado_i2n.states import pool
    pool.fcntl = FakeFcntl(sched)
    pool.time = FakeTime(sched)
    pool.shutil = FakeShutil(sched)
    pool.os = FakeOs(sched)
    pool.crypto = FakeCrypto(sched)
    pool.SKIP_LOCKS = False


def run_plan(plan_data, root):
    """Run one lock plan in ``root`` (a fresh scratch directory)."""
    plan = Plan(plan_data)
    sched = Sched(plan, root)
    install(sched)
    entries = list(plan_data["files"].items())
    # directories first, links last (a link may stand for a directory created before it)
    order = lambda kv: 0 if isinstance(kv[1], dict) and "dir" in kv[1] else 2 if isinstance(kv[1], dict) else 1
    for rel, content in sorted(entries, key=order):
        path = os.path.join(root, rel)
        os.makedirs(os.path.dirname(path), exist_ok=True)
        if isinstance(content, dict) and "dir" in content:
            os.makedirs(path, exist_ok=True)
        elif isinstance(content, dict) and "link" in content:
            os.symlink(os.path.join(root, content["link"]), path)
        else:
            with open(path, "wb") as handle:
                handle.write(content.encode())
            if rel.startswith("pool"):
                sched.pool_versions.setdefault(path, []).append(content.encode())
    for pid, script in enumerate(plan_data["procs"]):
        sched.procs[pid] = Proc(pid, script)
    sched.run()
    # bounded liveness: everybody who did not crash finished
    for p in sched.procs.values():
        if not p.frozen and not p.done:
            sched.violate("no-progress", "a process never finished", pid=p.pid)
    return sched
