#!/usr/bin/env python3
"""Regenerates the replay files of the known findings (development tool, not run by checks)."""
import json
import os
import sys

HERE = os.path.dirname(os.path.abspath(__file__))
sys.path.insert(0, HERE)

BASE = {"test_timeout": 100, "shared_pool": "/mnt/local/images/shared"}
VMS = {"vm1": "only CentOS\n", "vm2": "only Win10\n", "vm3": "only Ubuntu\n"}

WANTED = {
    "C01-own-pool-residue": ("missing-state/own-pool-residue", ("cleanup", "crash", "residue")),
    "C01-narrowed-scope-sharing": ("missing-state/instructed-source-not-in-scope", ("scope",)),
}


def main():
    from checks import trav, common
    from sim import pool
    from sim.plan import derive_seed
    from travsim import scenarios
    for name, (oracle, kinds) in WANTED.items():
        found = None
        for i in range(600):
            plan = scenarios.plan_for("C01", derive_seed(1, "C01", "quick", i), "quick")
            if plan["scenario"].get("kind") not in kinds:
                continue
            status, result = pool.run_forked(trav.execute, plan, 200)
            if status != "ok":
                continue
            hits = [v for v in result["violations"] if v["oracle"] == oracle]
            if hits:
                found = (plan, hits[0])
                break
        if not found:
            print(name, "NOT FOUND")
            continue
        plan, violation = found
        plan, stats = trav.minimise(plan, violation, budget_runs=40, wall=300)
        ok, result = trav.reproduces(plan, violation)
        print(name, "->", violation["signature"], "| minimised:", stats, "| reproduces:", ok)
        body = {"property": "C01", "engine": "travsim", "plan": plan, "oracle": oracle, "signature": violation["signature"],
                "detail": violation["detail"], "digest": result["digest"] if result else None, "minimisation": stats,
                "code_revision": common.code_revision()}
        with open(os.path.join(HERE, "findings", name + ".json"), "w") as handle:
            json.dump(body, handle, indent=1, sort_keys=True, default=str)


if __name__ == "__main__" and len(sys.argv) == 1:
    main()


def refresh():
    """Re-run every stored finding and refresh its recorded digest/detail (after harness changes)."""
    import glob
    from checks import trav, common
    from sim import pool
    for path in sorted(glob.glob(os.path.join(HERE, "findings", "*.json"))):
        with open(path) as handle:
            body = json.load(handle)
        status, result = pool.run_forked(trav.execute, body["plan"], 300)
        assert status == "ok", result
        hits = [v for v in result["violations"] if v["oracle"] == body["oracle"] and v["signature"] == body["signature"]]
        print(os.path.basename(path), "reproduces" if hits else "DOES NOT REPRODUCE", result["digest"])
        if hits:
            body["digest"] = result["digest"]
            body["detail"] = hits[0]["detail"]
            body["code_revision"] = common.code_revision()
            with open(path, "w") as handle:
                json.dump(body, handle, indent=1, sort_keys=True, default=str)


if __name__ == "__main__" and len(sys.argv) > 1 and sys.argv[1] == "refresh":
    refresh()
