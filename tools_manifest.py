#!/usr/bin/env python3
"""Regenerates MANIFEST.json from one table (kept in the repo so the manifest never drifts)."""
import json
import os

HERE = os.path.dirname(os.path.abspath(__file__))
PY = "/venv/bin/python -W ignore -m checks"

CLAIMED = {
    "C01": ("travsim", "3.3", "invariant at every simulated test start over the world model (pools per worker + shared), across epochs with crash-restart, populations and cleanups",
            "seeded deterministic simulation: real traversal under a virtual-time loop, world-model invariant at every start event"),
    "C02": ("travsim", "3.4", "bounded liveness (step/virtual-time/execution budgets, no-await spin watchdog) plus post-run history check of definite results, under persistent failures, lost results, retries",
            "seeded deterministic simulation with fault injection: bounded-liveness and history check"),
    "C03": ("travsim", "3.5", "history check of execution counts per (worker-invariant test, reuse scope) against the retry budget; present-at-first-scan classes must not execute",
            "seeded deterministic simulation: post-run history check of execution counts"),
    "C04": ("travsim", "3.6", "interval-overlap sweep over execution intervals in event-sequence order per (test, reuse scope), timer ties decided by the plan",
            "seeded deterministic simulation: interval-overlap check in virtual time"),
    "C05": ("travsim", "3.7", "history check of every removal/sync request at the state-control seam against the executions running or pending at that instant, and against the producers' removal marking",
            "seeded deterministic simulation: history check of removal requests vs dependant intervals"),
    "C08": ("travsim", "3.10", "invariant at every simulated start and state-control request: worker identity, access parameters, the connection obtained from the real session cache, listed sources == workers with a passing producer result",
            "seeded deterministic simulation: start-event invariant against the run's own history"),
}

PENDING = {}

CLAIMED["C10"] = ("travsim", "3.13", "history check against an executable model of the documented retry/stop/replay/verdict rules, with distinct-identifier and own-result (serial-tagged results) checks, valid and invalid settings, replayed jobs across crash-restart epochs",
                  "seeded deterministic simulation with fault injection: refinement against an executable retry/replay reference model")

CLAIMED["C14"] = ("locksim", "5", "fault enumeration: a crash at every yield point and an injected exception at every fallible call inside the critical section of every transfer kind, with 1-3 contenders under seeded schedules; stalled holders vs timeouts; seeded fault-free interleavings of 2-8 processes; invariants on lock ownership, overlap, byte-identity, link rules checked at every intercepted operation",
                  "deterministic simulation: baton-passed threads over fake fcntl/clock/copy with crash and error injection at every step")

CLAIMED["C12"] = ("statesim", "4.1", "operation-by-operation comparison of the real check/get/set/unset/push/pop with the README policy table and a set-of-names store model over seeded histories, with backend errors injected at the k-th backend call",
                  "seeded simulated histories with injected backend faults checked step by step against an executable reference model")
CLAIMED["C13"] = ("statesim", "4.2", "simulated cluster of pools (workers on gateways/hosts, shared and swarm pools, evolving placement, lost writes, invalid caches); the fake transport's contact log is compared with an independent scope/proximity model; plus file-level histories where the real chain transport runs over an in-memory file store (foreign saves of single files, lost states, a crash in the middle of a download followed by a retry) and the cache must equal the chosen source afterwards",
                  "seeded simulated multi-party store histories; contact log vs independent scope model")
CLAIMED["C17"] = ("statesim", "4.3", "histories of per-image and per-vm state operations with crashes between the per-image steps and lost writes over vms with 1-3 images; the real listing code (both regexes, intersection across images, memory files) is compared with a set model after every step",
                  "seeded crash/lost-write histories over a fake disk; listing vs set model after every step")

CLAIMED["C06"] = ("travsim", "3.8", "graph invariants (acyclic, one root, reachability, edge symmetry, identities, unique producer per required state, object sets) evaluated on the live graph after eager parsing and after EVERY lazy expansion step of simulated multi-worker traversals, whose expansion order is the schedule",
                  "seeded deterministic simulation: graph invariants checked after every lazy expansion step and at the end of each run")
CLAIMED["C09"] = ("travsim", "3.11", "per-worker copy equivalence, symmetric bridging and shared registers on the live graph; refinement of the lazily expanded graph (under seeded interleavings) against an up-front parse of the same input; parse-twice equality",
                  "seeded deterministic simulation: lazy-vs-eager refinement and bridging invariants on the traversed graph")
CLAIMED["C16"] = ("travsim", "3.12", "shadow models of the name index (naive contiguous-subsequence scan) and of the visit registers (wrapped register calls) compared with the live structures during and after simulated runs; restricted to the name sets and register histories that simulated jobs produce",
                  "seeded deterministic simulation: shadow-model comparison of index and registers during runs")

CLAIMED["C07"] = ("travsim", "3.9", "refinement of the graph's edges (after eager parsing and at the end of lazily expanded simulated traversals) against an independent resolver that follows the get/set declarations with the Cartesian parser alone (per vm variant composition, own suffix resolution), including transitive cloning with branch-specific state names",
                  "seeded deterministic simulation: refinement of the parsed/expanded graph against an independent dependency resolver")
CLAIMED["C15"] = ("travsim", "3.14", "the real update tool driven under the virtual-time loop with 1-3 workers; executed tests and removal requests at the seams compared with the independent resolver's path and derived-state sets for every (from,to) pair drawn along the vms' setup chains, vm subsets, remove sets, invalid states",
                  "seeded deterministic simulation: history check of the update tool against a resolver-derived expectation")
CLAIMED["C20"] = ("travsim", "3.14", "Manu.run (with the real command line parser) driven under the virtual-time loop: seeded chains of built-in steps incl. repeated steps, vm subsets, worker sets with restrictions, failing steps; per-step coverage (vm x compatible worker), order, parameters and return code checked from the execution history",
                  "seeded deterministic simulation with injected failing steps: history check of manual step chains")

NOT_APPLICABLE = {
    "C11": "pure function of the argument list and the configuration files: no schedule, clock, fault or multi-party behaviour for a simulator to control (DESIGN.md 6)",
    "C18": "sequential bookkeeping and integer arithmetic on a private data structure: nothing to interleave, delay or fail (DESIGN.md 6)",
    "C19": "pure function of the two end points' parameters (DESIGN.md 6)",
}


def build():
    checks = []
    for prop, (engine, ref, text, technique) in sorted(CLAIMED.items()):
        level = LEVELS.get(prop, "exploration")
        checks.append({
            "property_id": prop,
            "quick_cmd": f"{PY} {prop} --tier quick",
            "thorough_cmd": f"{PY} {prop} --tier thorough",
            "evidence_file": f"/verif/evidence/{prop}.json",
            "replay_cmd_template": f"{PY} {prop} --replay {{path}}",
            "engine": engine,
            "level_claimed": {"category": level, "text": text, "design_ref": f"DESIGN.md section {ref}"},
            "level_note": NOTES.get(prop, DEFAULT_NOTE),
            "technique": technique,
        })
    not_applicable = [{"property_id": p, "reason": r} for p, r in sorted({**NOT_APPLICABLE, **PENDING}.items())]
    manifest = {
        "version": 1,
        "setup_cmd": "cd /verif && /venv/bin/python -c 'import hypothesis' 2>/dev/null || /venv/bin/pip install --no-index --find-links /opt/veriftools/wheels hypothesis; cd /verif && /venv/bin/python -m compileall -q sim travsim checks statesim locksim >/dev/null 2>&1; true",
        "hooks": {
            "guard": "AVOCADO_I2N_VERIF",
            "enable": "none required: every seam the simulator needs is a module or class attribute that the harness patches from outside (the same seams the selftests mock); no hook code exists in /repo",
            "baseline_off_cmd": "cd /repo && /venv/bin/python -m pytest -ra -q -p no:cacheprovider --timeout=900 --continue-on-collection-errors",
            "source_commits": [],
            "add_only": True,
        },
        "engines": ENGINES,
        "checks": checks,
        "not_applicable": not_applicable,
        "notes": "Deterministic simulation with fault injection; see DESIGN.md. Exit codes: 0 held, 1 VIOLATION, 3 harness failure (never silently 0). known_findings.json lists genuine defects (known / fixed).",
    }
    with open(os.path.join(HERE, "MANIFEST.json"), "w") as handle:
        json.dump(manifest, handle, indent=1)
        handle.write("\n")


LEVELS = {"C14": "fault_enumeration"}
DEFAULT_NOTE = ("Sampling, not proof. Trusted: the simulator's stubs (virtual-time loop, simulated execution = duration + status + declared "
                "state effects, world model of pools behind the state-control door), the third-party Cartesian parser (memoised), "
                "and the oracle's reading of the property. Real: all of avocado_i2n.cartgraph, plugins/runner.run_workers/run_test_node, params_parser.")
NOTES = {}
NOTES["C06"] = ("Sampling. For eager parsing there is no schedule: that part is the base case of the same harness (seeded input generation + invariant). The simulation target is the lazy expansion, whose order depends on the workers' interleaving. "
               "Inputs: selections x vm variant restrictions (incl. multi-variant) x worker sets of the shipped suite.")
NOTES["C09"] = NOTES["C06"]
NOTES["C07"] = NOTES["C06"] + " The resolver is this repository's own reading of the configuration files through the Cartesian parser alone; generated suites with random setup DAGs are not built yet (shipped suite only)."
NOTES["C16"] = ("Restricted claim: decides C16 on the name sets and register histories that simulated jobs produce; queries that match one name at two positions (multi-vm names repeat variants such as default_bios) are outside the property's stated domain and skipped. "
               "Driving PrefixTree with arbitrary synthetic name sets would be plain property-based testing without schedule or fault and is deliberately not done under this technique.")
NOTES["C12"] = ("Sampling. One in-memory backend stands for all real backends; the experimental check_mode is modelled as coded and the strict no-alteration reading is checked in the check_mode=rr family; "
               "after an injected backend error only 'old or new states, nothing else changed' is required.")
NOTES["C13"] = ("Sampling. No scheduling inside one pool operation: what is simulated is the multi-party store and its history. 'Closest' is the documented order written independently of proximity().")
NOTES["C17"] = ("Sampling over reachable assignments. The per-regex part of C17 is exercised through the fake qemu-img listing only (sizes in B/KiB/MiB/GiB, names with dots, dashes, digits).")
NOTES["C14"] = ("Crash and exception points are enumerated completely per operation kind; the schedules around them are sampled. Trusted: the fake "
               "record-lock table (owner = sim-process, released on unlock/death), the chunked fake copy, the virtual clock. Real: pool.image_lock and "
               "TransferOps.*_local/*_link on real files. Remote (ssh) transfers take no lock in the code and are outside the simulator.")
ENGINES = [
    {"name": "travsim", "path": "/verif/travsim", "serves_properties": sorted(p for p, v in CLAIMED.items() if v[0] == "travsim"),
     "kind_free_text": "asyncio virtual-time loop running the real graph parsing and multi-worker traversal; simulated executions, state-control door over a durable world model, crash-restart epochs; plans with keyed decisions"},
    {"name": "statesim", "path": "/verif/statesim", "serves_properties": ["C12", "C13", "C17"],
     "kind_free_text": "seeded operation-and-fault histories (backend errors, crashes between per-image steps, lost writes, invalid caches) against the real state policy / pool / listing code over in-memory stores, each step checked against a reference model"},
    {"name": "locksim", "path": "/verif/locksim", "serves_properties": ["C14"],
     "kind_free_text": "baton-passing scheduler over real threads: one sim-process runs at a time, preempted at every intercepted fcntl/sleep/copy-chunk/unlink/hash call; fake POSIX record locks, virtual clock, crash = frozen process"},
]

if __name__ == "__main__":
    build()
