"""Shared driver of all checks: batches, violations, known findings, replay, evidence."""
import hashlib
import json
import os
import re
import sys
import time

VERIF = os.path.dirname(os.path.dirname(os.path.abspath(__file__)))
# VERIF_OUT: development aid, used together with VERIF_REPO when judging a scratch copy of the repository
OUT = os.environ.get("VERIF_OUT") or VERIF
EVIDENCE_DIR = os.path.join(OUT, "evidence")
REPLAY_DIR = os.path.join(OUT, "replays")
KNOWN_FILE = os.path.join(VERIF, "known_findings.json")

EXIT_OK, EXIT_VIOLATION, EXIT_HARNESS = 0, 1, 3


def verif_seed():
    try:
        return int(os.environ.get("VERIF_SEED", "0"))
    except ValueError:
        return 0


def load_known():
    if not os.path.exists(KNOWN_FILE):
        return []
    with open(KNOWN_FILE) as handle:
        return json.load(handle).get("findings", [])


def match_known(violation, known):
    """A violation is a known finding iff a ``known`` entry of its property and oracle matches."""
    for entry in known:
        if entry.get("status") != "known":
            continue
        if entry["property"] != violation["property"]:
            continue
        if entry.get("oracle") and entry["oracle"] != violation["oracle"]:
            continue
        if re.search(entry["signature"], violation["signature"]):
            need = entry.get("requires")
            if need and not all(re.search(v, str(violation.get("context", {}).get(k, ""))) for k, v in need.items()):
                continue
            return entry
    return None


def code_revision():
    import subprocess
    try:
        head = subprocess.run(["git", "-C", "/repo", "rev-parse", "HEAD"], capture_output=True, text=True,
                              timeout=20).stdout.strip()
        dirty = subprocess.run(["git", "-C", "/repo", "status", "--porcelain", "--untracked-files=no"],
                               capture_output=True, text=True, timeout=20).stdout.strip()
        return head + ("+dirty" if dirty else "")
    except Exception:
        return "unknown"


def write_replay(prop, plan, violation, extra=None):
    os.makedirs(REPLAY_DIR, exist_ok=True)
    body = {"property": prop, "engine": plan.get("engine"), "plan": plan, "oracle": violation["oracle"],
            "signature": violation["signature"], "detail": violation.get("detail"),
            "code_revision": code_revision()}
    if extra:
        body.update(extra)
    text = json.dumps(body, sort_keys=True, indent=1, default=str)
    digest = hashlib.sha256(json.dumps([prop, violation["oracle"], violation["signature"], plan], sort_keys=True,
                                       default=str).encode()).hexdigest()[:12]
    path = os.path.join(REPLAY_DIR, f"{prop}-{digest}.json")
    with open(path, "w") as handle:
        handle.write(text)
    return path


def write_evidence(prop, tier, seed, level, coverage, assumptions, wall_s, violations):
    os.makedirs(EVIDENCE_DIR, exist_ok=True)
    body = {"property_id": prop, "tier": tier, "seed": int(seed), "level": level, "coverage": coverage,
            "assumptions": assumptions, "wall_s": round(wall_s, 2), "violations": int(violations)}
    path = os.path.join(EVIDENCE_DIR, f"{prop}.json")
    tmp = path + ".tmp"
    with open(tmp, "w") as handle:
        json.dump(body, handle, indent=1, sort_keys=True, default=str)
    os.replace(tmp, path)
    return path


def ddmin(items, test, budget):
    """Classic ddmin: smallest subset of ``items`` (to keep non-neutral) for which test() holds.

    ``test(subset)`` -> bool (violation reproduces when only ``subset`` stays non-neutral).
    ``budget`` is a mutable [remaining calls].
    """
    items = list(items)
    n = 2
    while len(items) >= 2 and budget[0] > 0:
        size = max(len(items) // n, 1)
        subsets = [items[i:i + size] for i in range(0, len(items), size)]
        reduced = False
        for sub in subsets:
            if budget[0] <= 0:
                break
            budget[0] -= 1
            if test(sub):
                items, n, reduced = sub, 2, True
                break
        if not reduced:
            for sub in subsets:
                if budget[0] <= 0:
                    break
                comp = [x for x in items if x not in sub]
                if not comp:
                    continue
                budget[0] -= 1
                if test(comp):
                    items, n, reduced = comp, max(n - 1, 2), True
                    break
        if not reduced:
            if n >= len(items):
                break
            n = min(len(items), n * 2)
    if len(items) == 1 and budget[0] > 0:
        budget[0] -= 1
        if test([]):
            items = []
    return items


class Report:
    """Collects what a check run prints and decides the exit code."""

    def __init__(self, prop):
        self.prop = prop
        self.lines = []
        self.violations = 0
        self.known = {}
        self.harness_errors = []

    def violation(self, path):
        self.violations += 1
        line = f"VIOLATION property={self.prop} replay={path}"
        print(line, flush=True)

    def known_finding(self, entry, n=1):
        key = entry.get("id") or entry["signature"]
        if key not in self.known:
            self.known[key] = 0
            print(f"KNOWN-FINDING: property={self.prop} {entry['what']}", flush=True)
        self.known[key] += n

    def harness(self, text):
        self.harness_errors.append(text)

    def exit_code(self):
        if self.violations:
            return EXIT_VIOLATION
        if self.harness_errors:
            for text in self.harness_errors[:5]:
                sys.stderr.write("HARNESS-ERROR: " + text.strip()[-1500:] + "\n")
            return EXIT_HARNESS
        return EXIT_OK
