"""Run one plan from a JSON file in this (fresh) interpreter and print its digest (self-test helper)."""
import json
import os
import sys

VERIF = os.path.dirname(os.path.dirname(os.path.abspath(__file__)))
if VERIF not in sys.path:
    sys.path.insert(0, VERIF)


def main():
    import warnings
    warnings.simplefilter("ignore")
    with open(sys.argv[1]) as handle:
        plan = json.load(handle)
    if os.environ.get("VERIF_NO_MEMO"):
        from sim import memo
        memo.ENABLED = False
    engine = plan.get("engine")
    if engine == "travsim":
        from checks import trav
        result = trav.execute(plan)
    elif engine == "locksim":
        from checks import lock
        result = lock.execute(plan)
    else:
        from checks import state
        result = state.execute(plan)
    print("DIGEST", result["digest"], len(result["violations"]))


if __name__ == "__main__":
    main()
