"""Driver for the travsim (engine A) properties."""
import copy
import json
import os
import sys
import time

from checks import common
from sim import pool
from sim.plan import derive_seed

LEVEL = "exploration"

# runs and wall budgets per tier: (max runs, wall seconds for the batch)
BUDGETS = {
    "C01": {"quick": (320, 100), "thorough": (20000, 1200)},
    "C02": {"quick": (320, 100), "thorough": (20000, 1200)},
    "C03": {"quick": (400, 80), "thorough": (30000, 900)},
    "C04": {"quick": (400, 80), "thorough": (30000, 900)},
    "C05": {"quick": (240, 100), "thorough": (10000, 1200)},
    "C08": {"quick": (320, 100), "thorough": (20000, 1200)},
    "C10": {"quick": (400, 80), "thorough": (30000, 900)},
    "C06": {"quick": (160, 120), "thorough": (5000, 1500)},
    "C07": {"quick": (160, 120), "thorough": (5000, 1500)},
    "C09": {"quick": (160, 120), "thorough": (5000, 1500)},
    "C16": {"quick": (160, 100), "thorough": (5000, 1200)},
    "C15": {"quick": (60, 120), "thorough": (1000, 1500)},
    "C20": {"quick": (60, 120), "thorough": (1000, 1500)},
}

CHILD_TIMEOUT = 150.0


def _setup_child():
    import logging
    import warnings
    logging.disable(logging.CRITICAL)
    warnings.simplefilter("ignore")


def home_dir():
    # the overwrite files created in HOME embed the suite path: one HOME per judged repository
    import hashlib
    from travsim.run import scratch_root
    from travsim import resolver
    tag = hashlib.sha256(resolver.suite_path_of({}).encode()).hexdigest()[:8]
    path = os.path.join(scratch_root(), f"travsim-home-{os.getuid()}-{tag}")
    os.makedirs(path, exist_ok=True)
    return path


def prepare_suite(scen):
    """Generated suites are (re)created from their seed; the shipped suite uses a common scratch HOME."""
    if scen.get("generated") is not None:
        from travsim import gensuite
        path = gensuite.ensure(scen["generated"])
        scen["suite_path"] = path
        scen["home"] = os.path.join(path, "home")
    else:
        # always explicit: a pool process may have been warmed with another suite before
        from travsim import resolver
        scen["suite_path"] = resolver.suite_path_of({})
        scen["home"] = home_dir()


def evaluate(prop, history):
    from travsim import oracles
    from travsim.resolver import strip_set
    # a test is the same test through whichever test set it was selected or found as a dependency: the oracles
    # identify tests by their worker- and selection-invariant class (the digest was taken from the raw events)
    for ev in history["events"]:
        if isinstance(ev.get("cls"), str) and "cls_raw" not in ev:
            ev["cls_raw"] = ev["cls"]
            ev["cls"] = strip_set(ev["cls"])
    for rec in history.get("assigned", []):
        if isinstance(rec.get("cls"), str) and "cls_raw" not in rec:
            rec["cls_raw"] = rec["cls"]
            rec["cls"] = strip_set(rec["cls"])
    fn = getattr(oracles, "check_" + prop)
    extra = {}
    if prop in ("C02", "C08", "C15", "C20"):
        from travsim import resolver
        extra = resolver.context_for(prop, history)
    return fn(history, **extra)


def execute(plan):
    """Runs in a forked child: simulate the plan, judge it, return a compact summary."""
    _setup_child()
    from travsim import run as trun
    plan = copy.deepcopy(plan)
    prepare_suite(plan["scenario"])
    t0 = time.monotonic()
    history = trun.run_plan(plan)
    for ending in history["endings"]:
        if ending.get("error_type") in ("FileNotFoundError", "PermissionError") and "travsim-" in (ending.get("error") or ""):
            # the scratch suite/home vanished under the run: a harness problem, never a verdict
            raise RuntimeError("scratch files of the simulation disappeared: " + ending["error"])
    prop = plan["property"]
    violations = evaluate(prop, history)
    execs = sum(1 for ev in history["events"] if ev["kind"] == "start")
    trigger = trigger_probe(prop, history)
    summary = {
        "seed": plan["seed"],
        "digest": history["digest"],
        "violations": violations,
        "probes": dict(probes_of(history), **history.get("graph_probes", {})),
        "faults": history["faults"],
        "ilv": trun.interleaving_hash(history),
        "pairs": sorted("|".join(p) for p in trun.concurrency_pairs(history)),
        "execs": execs,
        "events": len(history["events"]),
        "vtime": sum(e["vtime"] for e in history["endings"]),
        "steps": sum(e["steps"] for e in history["endings"]),
        "max_spin": max([e.get("max_steps_without_await", 0) for e in history["endings"]] or [0]),
        "endings": [e["how"] for e in history["endings"]],
        "errors": [(e["how"], (e.get("error") or "")[:300]) for e in history["endings"] if e["how"] not in ("completed", "crashed")],
        "trigger": trigger,
        "wall": time.monotonic() - t0,
        "consulted": history["consulted"] if plan.get("_want_consulted") else None,
    }
    if plan.get("_want_sample"):
        summary["sample"] = sample_of(history)
    if plan.get("_want_history"):
        summary["history"] = history
    return summary


def probes_of(history):
    """Rare-branch probes measured from the event log."""
    probes = dict(history["probes"])
    events = history["events"]

    def bump(name, n=1):
        probes[name] = probes.get(name, 0) + n

    workers_of_cls = {}
    for ev in events:
        kind = ev["kind"]
        if kind == "sleep.graph":
            bump("bounce-from-occupied")
        elif kind == "sleep.runner":
            bump("result-wait")
        elif kind == "door.unset":
            bump("reversal-with-unset")
        elif kind == "door.get":
            bump("reversal-with-sync")
        elif kind == "door.check":
            bump("state-scan")
            if ev["answer"]:
                bump("scan-found-all")
        elif kind == "start":
            if ev["k"] > 0 or (ev.get("uid") or "").find("r") > 0:
                bump("retry-execution")
            if ev.get("object_root") and ev.get("type") == "shared_configure_install" and "r" in (ev.get("uid") or ""):
                bump("retry-of-creation-step")
            workers_of_cls.setdefault(ev["cls"], set()).add(ev["worker"])
            for need in ev["needs"]:
                locs = [l for l in need["locations"].split() if not l.startswith(":")]
                if any(not l.startswith(ev["worker"] + ":") for l in locs):
                    bump("setup-from-other-worker")
        elif kind == "crash":
            bump("crash-with-inflight-execution")
        elif kind == "world.populated":
            bump("population-observed")
    if any(len(ws) > 1 for ws in workers_of_cls.values()):
        bump("class-executed-by-several-workers")
    return probes


def trigger_probe(prop, history):
    """Whether the property's own trigger fired in this run (for distinct_nontrivial)."""
    events = history["events"]
    kinds = {ev["kind"] for ev in events}
    if prop == "C04":
        return "sleep.graph" in kinds
    if prop == "C03":
        return any(ev["kind"] == "door.check" for ev in events) and sum(1 for ev in events if ev["kind"] == "start") > 1
    if prop == "C01":
        return any(ev["kind"] == "start" and ev["needs"] for ev in events)
    if prop == "C02":
        return any(ev["kind"] == "end" and ev["status"] != "PASS" for ev in events) or "sleep.runner" in kinds \
            or any(ev["kind"] == "epoch.begin" and ev["params"].get("dry_run") == "yes" for ev in events)
    if prop == "C05":
        return "door.unset" in kinds or "door.get" in kinds
    if prop == "C08":
        return any(ev["kind"] == "start" and any(
            [l for l in n["locations"].split() if not l.startswith(":")] for n in ev["needs"]) for ev in events)
    if prop == "C10":
        return any(ev["kind"] == "start" and ev["k"] > 0 for ev in events) or any(
            ev["kind"] == "epoch.begin" and ev["params"].get("replay") for ev in events)
    return True


def sample_of(history, limit=60):
    out = []
    for ev in history["events"]:
        if ev["kind"] in ("start", "end", "crash"):
            out.append([ev["seq"], ev["t"], ev["epoch"], ev["kind"], ev["worker"], ev["label"], ev.get("status")])
        elif ev["kind"].startswith("door."):
            out.append([ev["seq"], ev["t"], ev["epoch"], ev["kind"], ev["worker"], ev["label"],
                        [(r["state"], r.get("present"), r.get("removed")) for r in ev["reqs"]]])
        elif ev["kind"] in ("epoch.begin", "epoch.end", "world.populated", "world.del"):
            out.append([ev["seq"], ev["t"], ev["epoch"], ev["kind"], ev.get("how") or ev.get("state") or ""])
        if len(out) >= limit:
            out.append("... truncated ...")
            break
    return out


def warm(plan):
    """Fill the parser memo of this pool process: one in-process fault-free run of the scenario."""
    _setup_child()
    from travsim import run as trun
    from sim import memo
    memo.trim()
    warm_plan = copy.deepcopy(plan)
    warm_plan["defaults_only"] = True
    scen = warm_plan["scenario"]
    prepare_suite(scen)
    scen["families"] = {"durations": "unit"}
    if scen.get("tool"):
        return  # tools parse with their own parameter sets: every run warms itself
    scen["epochs"] = [dict(e, crash_at=None, world_ops=None) for e in (scen.get("epochs") or [{}])][:1] + \
        [dict(e, crash_at=None, world_ops=None) for e in (scen.get("epochs") or [{}])[1:] if e.get("replay")]
    scen["step_budget"] = 20000
    try:
        trun.run_plan(warm_plan)
    except Exception:
        pass


def reproduces(plan, violation, timeout=CHILD_TIMEOUT):
    """Run a plan in a fresh forked child; does a violation of the same class come back?"""
    status, result = pool.run_forked(execute, plan, timeout)
    if status != "ok":
        return False, None
    for v in result["violations"]:
        if v["property"] == violation["property"] and v["oracle"] == violation["oracle"] \
                and v["signature"] == violation["signature"]:
            return True, result
    return False, result


FAMILIES = ["tie/", "dur/", "out/", "lost/", "pop/", "partial/", "cleanup/", "badsession/"]


def minimise(plan, violation, budget_runs=24, wall=90.0):
    """Shrink the input (workers), neutralise decision families, then ddmin single decisions."""
    t_end = time.monotonic() + wall
    plan = copy.deepcopy(plan)
    budget = [budget_runs]
    stats = {"minimised": True}

    def attempt(cand):
        if budget[0] <= 0 or time.monotonic() > t_end:
            return False
        budget[0] -= 1
        ok, _ = reproduces(cand, violation)
        return ok

    ok, result = reproduces(dict(plan, _want_consulted=True), violation)
    if not ok:
        return plan, {"minimised": False, "note": "did not reproduce in a fresh child"}
    stats["decisions_before"] = len(result.get("consulted") or {})
    # 1. fewer workers
    nets = plan["scenario"]["nets"].split()
    changed = plan["scenario"].get("tool") != "manu"   # the worker set of a command line is part of its argument list
    while changed and len(nets) > 1:
        changed = False
        for i in range(len(nets)):
            cand = copy.deepcopy(plan)
            cand["scenario"]["nets"] = " ".join(nets[:i] + nets[i + 1:])
            if attempt(cand):
                plan, nets, changed = cand, nets[:i] + nets[i + 1:], True
                break
    # 2. whole decision families to their neutral defaults
    neutral = []
    for fam in FAMILIES:
        cand = copy.deepcopy(plan)
        cand["neutral"] = neutral + [fam]
        if attempt(cand):
            neutral.append(fam)
            plan = cand
    # 3. single decisions of the families that matter
    ok, result = reproduces(dict(plan, _want_consulted=True), violation)
    consulted = (result.get("consulted") or {}) if ok else {}
    keys = sorted(k for k in consulted if not any(k.startswith(f) for f in neutral) and not k.startswith("tie/"))
    if keys and len(keys) <= 400:
        def test(keep):
            cand = copy.deepcopy(plan)
            cand["neutral"] = neutral + sorted(set(keys) - set(keep))
            return attempt(cand)
        kept = common.ddmin(keys, test, budget)
        cand = copy.deepcopy(plan)
        cand["neutral"] = neutral + sorted(set(keys) - set(kept))
        ok, _ = reproduces(cand, violation)
        if ok:
            plan = cand
            stats["decisions_after"] = len(kept)
    stats["neutral_families"] = neutral
    stats["nets_after"] = plan["scenario"]["nets"]
    stats["runs_used"] = budget_runs - budget[0]
    return plan, stats


def regression_plans(prop):
    """Plans stored under /verif/regressions for this property (replays of defects that were repaired)."""
    import glob
    plans = []
    for path in sorted(glob.glob(os.path.join(common.VERIF, "regressions", f"{prop}-*.json"))):
        with open(path) as handle:
            plan = json.load(handle)["plan"]
        plan["property"] = prop
        plan["_regression"] = os.path.basename(path)
        plans.append(plan)
    return plans


def run_check(prop, tier, replay=None):
    from travsim import scenarios, gensuite
    gensuite.run_id()
    t_start = time.monotonic()
    report = common.Report(prop)
    seed0 = common.verif_seed()
    known = common.load_known()
    if replay:
        return run_replay(prop, replay, report)
    max_runs, wall = BUDGETS[prop][tier]
    max_runs = int(os.environ.get("VERIF_RUNS", max_runs))
    wall = float(os.environ.get("VERIF_WALL", wall))
    seeds = [derive_seed(seed0, prop, tier, i) for i in range(max_runs)]
    plans = [scenarios.plan_for(prop, s, tier) for s in seeds]
    # histories of repaired defects run first in every batch: a fixed entry suppresses nothing
    regressions = regression_plans(prop)
    plans = regressions + plans
    # the first two plans double as evidence samples
    for p in plans[:2]:
        p["_want_sample"] = True
    keys = [scenarios.warm_key(p["scenario"]) for p in plans]
    deadline = time.monotonic() + wall
    child_timeout = CHILD_TIMEOUT if tier == "quick" else CHILD_TIMEOUT * 2
    results, skipped = pool.run_batch(execute, plans, keys=keys, warm=warm, timeout=child_timeout,
                                      chunk=6, deadline=deadline)
    # a run killed for exceeding its wall budget (loaded machine) gets one more chance alone with a
    # tripled budget; if it still does not finish it stays a harness error (never a pass)
    retried = 0
    for n, (index, status, result, wall_run) in enumerate(results):
        if status != "ok" and isinstance(result, str) and ("wall budget" in result or "died without reporting" in result) and index >= 0:
            status2, result2 = pool.run_forked(execute, plans[index], child_timeout * 3)
            retried += 1
            if status2 == "ok":
                results[n] = (index, status2, result2, wall_run)
    agg = aggregate(prop, plans, results, report, known)
    agg["retried_after_timeout"] = retried
    # determinism spot check: re-run a few plans, digests must agree
    ndet = 4 if tier == "quick" else 24
    det_idx = [r[0] for r in results if r[1] == "ok"][:ndet]
    mismatches = 0
    for idx in det_idx:
        status, again = pool.run_forked(execute, plans[idx], CHILD_TIMEOUT)
        first = next(r for r in results if r[0] == idx)[2]
        if status != "ok" or again["digest"] != first["digest"]:
            mismatches += 1
    if mismatches:
        report.harness(f"determinism self-check failed for {mismatches}/{len(det_idx)} plans")
    try:
        from travsim import gensuite
        gensuite.cleanup()
    except Exception:
        pass
    wall_s = time.monotonic() - t_start
    coverage = coverage_of(prop, tier, plans, results, skipped, agg, wall_s, ndet=len(det_idx), mism=mismatches)
    common.write_evidence(prop, tier, seed0, LEVEL, coverage, ASSUMPTIONS, wall_s, report.violations)
    print(f"{prop} {tier}: {agg['ok_runs']} runs, {agg['execs']} simulated executions, "
          f"{len(agg['ilv'])} distinct interleavings, {report.violations} violations, "
          f"{sum(report.known.values())} known-finding hits, {len(report.harness_errors)} harness errors, "
          f"{wall_s:.0f}s", flush=True)
    return report.exit_code()


ASSUMPTIONS = [
    "a test execution is a duration, a status and its declared state effects; qemu/lxc/LVM are outside the simulator",
    "a saved state is a name in a pool; fetching copies the named state only",
    "the Cartesian parser (virttest) is trusted and memoised; params_parser itself runs unmodified",
    "test classes are identified by the worker-invariant full variant name",
]

REAL_COMPONENTS = ["avocado_i2n.cartgraph.graph (parsing, traversal)", "avocado_i2n.cartgraph.node",
                   "avocado_i2n.cartgraph.object", "avocado_i2n.cartgraph.worker (parse, get_session)",
                   "avocado_i2n.plugins.runner (run_workers, run_test_node, all_results_ok, results_from_previous_jobs)",
                   "avocado_i2n.params_parser", "virttest Params"]
STUB_COMPONENTS = ["asyncio event loop (virtual time)", "TestRunner.run_test_task (simulated execution)",
                   "cartgraph.node.door (state control -> world model)", "remote.wait_for_login",
                   "TestWorker.start", "SpawnerDispatcher", "avocado Job object", "TestGraph.visualize (no-op)"]


def scenario_context(scen):
    """Input class of a scenario, for known findings that are identified by their input."""
    two_image_cloning = "no"
    if len(str(scen.get("params", {}).get("images_vm1", "")).split()) > 1 and scen.get("generated") is not None:
        from travsim import gensuite
        if gensuite.make_spec(scen["generated"]).get("multi"):
            two_image_cloning = "yes"
    return {"nets": scen["nets"], "tests": scen["tests"], "two_image_cloning": two_image_cloning}


def aggregate(prop, plans, results, report, known):
    agg = {"ok_runs": 0, "execs": 0, "vtime": 0.0, "steps": 0, "ilv": set(), "ilv_trigger": set(),
           "pairs": set(), "faults": {}, "probes": {}, "endings": {}, "samples": [], "violating": [],
           "known_hits": {}, "wall_child": 0.0, "kinds": {}, "errors": []}
    fresh = {}
    for index, status, result, wall in results:
        if status != "ok":
            report.harness(f"run {index}: {result}")
            continue
        agg["ok_runs"] += 1
        agg["execs"] += result["execs"]
        agg["vtime"] += result["vtime"]
        agg["steps"] += result["steps"]
        agg["max_steps"] = max(agg.get("max_steps", 0), result["steps"])
        agg["max_spin"] = max(agg.get("max_spin", 0), result.get("max_spin", 0))
        agg["max_wall"] = max(agg.get("max_wall", 0.0), result["wall"])
        agg["wall_child"] += result["wall"]
        agg["ilv"].add(result["ilv"])
        if result["trigger"]:
            agg["ilv_trigger"].add(result["ilv"])
        agg["pairs"].update(result["pairs"])
        kind = plans[index]["scenario"].get("kind", "-") + ("/generated-suite" if plans[index]["scenario"].get("generated") is not None else "")
        agg["kinds"][kind] = agg["kinds"].get(kind, 0) + 1
        for k, v in result["faults"].items():
            agg["faults"][k] = agg["faults"].get(k, 0) + v
        for k, v in result["probes"].items():
            agg["probes"][k] = agg["probes"].get(k, 0) + v
        for how in result["endings"]:
            agg["endings"][how] = agg["endings"].get(how, 0) + 1
        for how, err in result.get("errors", []):
            if len(agg["errors"]) < 10:
                agg["errors"].append({"seed": plans[index]["seed"], "how": how, "error": err})
        if "sample" in result and len(agg["samples"]) < 2:
            scen = plans[index]["scenario"]
            agg["samples"].append({"seed": plans[index]["seed"],
                                   "input": {k: scen[k] for k in ("tests", "nets", "mode", "params", "families", "epochs") if k in scen},
                                   "history": result["sample"]})
        for v in result["violations"]:
            v["context"] = scenario_context(plans[index]["scenario"])
            entry = common.match_known(v, known)
            if entry is not None:
                report.known_finding(entry)
                continue
            key = (v["oracle"], v["signature"])
            if key not in fresh:
                fresh[key] = (index, v)
    # report (and minimise) each distinct unknown violation class, bounded
    classes = sorted(fresh.items(), key=lambda kv: kv[1][0])
    if len(classes) > 12:
        print(f"{prop}: {len(classes)} distinct violation classes, replay files written for the first 12", flush=True)
    for n, (key, (index, v)) in enumerate(classes[:12]):
        plan = {k: val for k, val in plans[index].items() if not k.startswith("_")}
        stats = {}
        if n < 2:
            try:
                plan, stats = minimise(plan, v)
            except Exception as error:  # minimisation is best effort
                stats = {"minimised": False, "error": repr(error)}
        extra = {"minimisation": stats}
        if n < 4:
            # the replay must reproduce exactly: record the event digest of the (minimised) plan
            ok, rerun = reproduces(plan, v)
            extra["reproduced_in_fresh_child"] = bool(ok)
            if rerun is not None:
                extra["digest"] = rerun["digest"]
        path = common.write_replay(prop, plan, v, extra)
        if extra.get("reproduced_in_fresh_child") is False:
            # every run is a pure function of its plan: a verdict that its own replay does not reproduce is a defect
            # of the harness (state leaking between runs of one process), never a statement about the code under test
            report.harness(f"a violation ({v['oracle']}: {v['signature'][:100]}) did not reproduce from its replay {path}")
            continue
        report.violation(path)
        agg["violating"].append({"signature": v["signature"], "oracle": v["oracle"], "replay": path})
    return agg


def coverage_of(prop, tier, plans, results, skipped, agg, wall_s, ndet, mism):
    runs = agg["ok_runs"]
    rule = ("plans are generated from seeds H(VERIF_SEED, property, tier, i): test selection x vm variants x worker set x "
            "parse mode x retry/scope parameters x fault family; every duration, outcome, timer tie, population and crash "
            "instant is a keyed decision of the plan. Distinct = distinct hash of the per-run sequence of "
            "(worker role, test class, start|end|crash|unset, status); non-trivial = the property's trigger probe fired in the run "
            f"({TRIGGERS.get(prop, 'any execution')}).")
    return {
        "evaluations": runs,
        "distinct_nontrivial": len(agg["ilv_trigger"]),
        "rule": rule,
        "samples": agg["samples"] or [{"note": "no sample captured"}],
        "distinct_interleavings": len(agg["ilv"]),
        "distinct_concurrency_pairs": len(agg["pairs"]),
        "simulated_executions": agg["execs"],
        "simulated_seconds": round(agg["vtime"], 2),
        "loop_steps": agg["steps"],
        "max_loop_steps_in_one_run": agg.get("max_steps", 0),
        "max_traversal_steps_without_await": agg.get("max_spin", 0),
        "max_wall_s_of_one_run": round(agg.get("max_wall", 0.0), 1),
        "runs_per_hour": int(runs / max(wall_s, 1e-6) * 3600),
        "seeds": {"first": plans[0]["seed"] if plans else None, "last": plans[-1]["seed"] if plans else None,
                  "rule": "H('seed', VERIF_SEED, property, tier, i) & 0x7FFFFFFFFFFF, i = 0..n-1", "planned": len(plans),
                  "not_started_within_wall_budget": skipped},
        "scenario_kinds": agg["kinds"],
        "faults_fired": agg["faults"],
        "probes": agg["probes"],
        "epoch_endings": agg["endings"],
        "abnormal_endings": agg["errors"],
        "determinism_selfcheck": {"plans_rerun": ndet, "digest_mismatches": mism},
        "runs_retried_after_wall_timeout": agg.get("retried_after_timeout", 0),
        "real_components": REAL_COMPONENTS,
        "stub_components": STUB_COMPONENTS,
        "violating": agg["violating"],
        "exhaustive": False,
    }


TRIGGERS = {
    "C01": "a test with a required state was started",
    "C02": "a non-PASS outcome, a result wait, or a dry run occurred",
    "C03": "a state scan and more than one execution occurred",
    "C04": "a worker bounced from an occupied node",
    "C05": "a reversal with unset or sync request occurred",
    "C08": "a test was told about another worker's pool",
    "C10": "a retry execution or a replayed job occurred",
}


def run_replay(prop, path, report):
    try:
        with open(path) as handle:
            body = json.load(handle)
    except (OSError, ValueError) as error:
        report.harness(f"cannot read replay file {path}: {error}")
        return report.exit_code()
    plan = body["plan"]
    violation = {"property": body["property"], "oracle": body["oracle"], "signature": body["signature"]}
    ok, result = reproduces(plan, violation)
    if result is None:
        report.harness("replay run failed")
        return report.exit_code()
    if ok:
        same = "" if not body.get("digest") else (", identical event digest" if body["digest"] == result["digest"]
                                                  else f", event digest differs from the recorded {body['digest']}")
        print(f"replay reproduces: {body['signature']} (digest {result['digest']}{same})")
        report.violation(path)
    else:
        print(f"replay does not reproduce {body['signature']!r}; violations now: "
              f"{[v['signature'] for v in result['violations']]}")
    return report.exit_code()
