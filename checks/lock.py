"""Driver for C14 (engine C, locksim): fault enumeration over the critical sections."""
import copy
import os
import shutil
import tempfile
import time

from checks import common
from sim import pool as ppool
from sim.plan import derive_seed, H

LEVEL = "fault_enumeration"
PROP = "C14"
OP_KINDS = ["download", "upload", "delete", "download_link"]


def execute(plan):
    import logging
    import warnings
    logging.disable(logging.CRITICAL)
    warnings.simplefilter("ignore")
    from locksim import sim
    from travsim.run import scratch_root
    root = tempfile.mkdtemp(prefix="locksim-", dir=scratch_root())
    t0 = time.monotonic()
    try:
        s = sim.run_plan(plan, root)
    finally:
        shutil.rmtree(root, ignore_errors=True)
    ops = [(ev["pid"], ev["op"], ev.get("outcome")) for ev in s.events if ev["kind"] == "op.end"]
    ilv = H(*[(ev["pid"], ev["kind"], ev.get("what"), ev.get("op")) for ev in s.events
              if ev["kind"] in ("lock.acquire", "lock.release", "lock.busy", "copy.begin", "copy.end", "unlink", "crash", "op.end")])
    out = {"seed": plan["seed"], "digest": s.digest(), "violations": dedup(s.violations), "faults": s.faults,
           "probes": s.probes, "ilv": ilv, "ops": len(ops), "steps": s.steps, "vtime": s.now,
           "wall": time.monotonic() - t0, "family": plan.get("family"),
           "trigger": bool(s.probes.get("lock-contended")) or bool(s.faults)}
    if plan.get("_want_sample"):
        out["sample"] = [{k: v for k, v in ev.items() if v is not None} for ev in s.events
                         if ev["kind"] != "yield"][:60]
    if plan.get("_want_yields"):
        out["yield_log"] = {f"{k[0]}/{k[1]}": v for k, v in s.yield_log.items()}
        out["events"] = s.events
    return out


def dedup(violations):
    seen, out = set(), []
    for v in violations:
        key = (v["oracle"], v["signature"])
        if key not in seen:
            seen.add(key)
            out.append(v)
    return out


def content(seed, tag, size):
    alphabet = "ABCDEFGHIJKLMNOPQRSTUVWXYZabcdefghijklmnopqrstuvwxyz0123456789"
    return "".join(alphabet[H(seed, tag, i) % len(alphabet)] for i in range(size))


def random_plan(seed, family="fault-free"):
    def pick(key, options):
        return options[H(seed, "lockgen", key) % len(options)]
    nproc = pick("nproc", [2, 2, 3, 3, 4, 5, 6, 8])
    npool = pick("npool", [1, 1, 2])
    files = {}
    for k in range(npool):
        if pick(f"poolexists{k}", [True, True, False]):
            files[f"pool/f{k}"] = content(seed, f"pool{k}", pick(f"poolsize{k}", [0, 4, 9, 12, 17, 32]))
    procs = []
    for pid in range(nproc):
        script = []
        # some processes reach their cache through a symlinked directory (a legal, non canonical path)
        via = pick(f"via{pid}", [False, False, False, True])
        if via:
            files[f"cache/p{pid}"] = {"dir": True}
            files[f"cvia/p{pid}"] = {"link": f"cache/p{pid}"}
        for j in range(pick(f"nops{pid}", [1, 1, 2, 3])):
            k = pick(f"file{pid}/{j}", list(range(npool)))
            op = pick(f"op{pid}/{j}", ["download", "download", "upload", "upload", "delete", "download_link", "upload_link"])
            cache = f"cache/p{pid}/f{k}"
            state = pick(f"cachestate{pid}/{j}", ["absent", "data", "data", "same", "link"])
            if cache not in files:
                if state == "data":
                    files[cache] = content(seed, f"cache{pid}/{k}", pick(f"csize{pid}/{j}", [1, 4, 8, 13, 24]))
                elif state == "same" and f"pool/f{k}" in files:
                    files[cache] = files[f"pool/f{k}"]
                elif state == "link":
                    # mostly a link to the very pool file, sometimes one left from another pool or a dead one
                    target = pick(f"linktarget{pid}/{j}", ["same", "same", "other", "dead"])
                    if target == "other" and npool > 1:
                        files[cache] = {"link": f"pool/f{(k + 1) % npool}"}
                    elif target == "dead":
                        files[cache] = {"link": f"pool/gone{k}"}
                    else:
                        files[cache] = {"link": f"pool/f{k}"}
            if isinstance(files.get(cache), dict) and op == "upload":
                op = "upload_link"
            if isinstance(files.get(cache), dict) and files[cache]["link"] != f"pool/f{k}" and op == "download":
                op = "download_link"   # links to other places only occur in link mode
            script.append({"op": op, "cache": cache.replace("cache/", "cvia/", 1) if via else cache, "pool": f"pool/f{k}",
                           "timeout": pick(f"to{pid}/{j}", [5, 8, 300])})
        procs.append(script)
    return {"seed": seed, "engine": "locksim", "property": PROP, "family": family, "files": files, "procs": procs,
            "decisions": {}, "neutral": []}


def victim_plan(seed, kind, contenders, fault):
    """One victim operation of ``kind`` with a fault inside, plus contending processes."""
    files = {"pool/f0": content(seed, "pool", 12)}
    cache_victim = "cache/p0/f0"
    if kind in ("upload",):
        files[cache_victim] = content(seed, "victim", 13)
    elif kind == "download":
        files[cache_victim] = content(seed, "victimold", 5)
    procs = [[{"op": kind, "cache": cache_victim, "pool": "pool/f0", "timeout": 8}]]
    kinds = ["download", "upload", "download", "delete", "upload", "download_link", "download"]
    for pid in range(1, contenders + 1):
        other = kinds[H(seed, "contender", pid) % len(kinds)]
        cache = f"cache/p{pid}/f0"
        if other == "upload":
            files[cache] = content(seed, f"c{pid}", 9 + pid)
        procs.append([{"op": other, "cache": cache, "pool": "pool/f0", "timeout": 8},
                      {"op": "download", "cache": cache + "b", "pool": "pool/f0", "timeout": 8}])
    plan = {"seed": seed, "engine": "locksim", "property": PROP, "family": "fault:" + next(iter(fault)),
            "files": files, "procs": procs, "decisions": {}, "neutral": []}
    plan.update(fault)
    return plan


def timeout_plan(seed, hold, timeout, waiters, jump):
    files = {"pool/f0": content(seed, "pool", 8)}
    procs = [[{"op": "stall", "cache": "cache/p0/f0", "pool": "pool/f0", "hold": hold, "timeout": 300}]]
    ops = ["download", "upload", "delete", "download_link"]
    for pid in range(1, waiters + 1):
        op = ops[H(seed, "waiter", pid) % len(ops)]
        cache = f"cache/p{pid}/f0"
        if op == "upload":
            files[cache] = content(seed, f"w{pid}", 7)
        procs.append([{"op": op, "cache": cache, "pool": "pool/f0", "timeout": timeout}])
    plan = {"seed": seed, "engine": "locksim", "property": PROP, "family": "stalled-holder", "files": files,
            "procs": procs, "decisions": {}, "neutral": []}
    if jump:
        plan["clock_jump"] = {"p": 0.3, "factor": 3}
    return plan


def critical_section_lengths():
    """Probe each operation kind alone: how many yield points lie inside its critical section."""
    lengths = {}
    for kind in OP_KINDS:
        plan = victim_plan(1, kind, 0, {"_none": True})
        plan.pop("_none")
        plan["_want_yields"] = True
        status, result = ppool.run_forked(execute, plan, 60)
        if status != "ok":
            raise RuntimeError(f"probe of {kind} failed: {result}")
        inside, n = False, 0
        for ev in result["events"]:
            if ev["kind"] == "lock.acquire":
                inside, n = True, 0
            elif ev["kind"] == "lock.release":
                inside = False
            elif ev["kind"] == "yield" and inside:
                n += 1
        lengths[kind] = n
    return lengths


def build_plans(tier, seed0):
    plans = []
    n_free = 600 if tier == "quick" else 20000
    n_sched = 3 if tier == "quick" else 12
    for i in range(n_free):
        plans.append(random_plan(derive_seed(seed0, PROP, tier, i)))
    lengths = critical_section_lengths()
    enumerated = {"crash": {}, "exception": {}}
    i = n_free
    for kind, n in lengths.items():
        enumerated["crash"][kind] = n + 1
        for k in range(n + 1):
            for contenders in (1, 2, 3):
                for s in range(n_sched):
                    i += 1
                    plans.append(victim_plan(derive_seed(seed0, PROP, tier, i), kind, contenders,
                                             {"crash": {"pid": 0, "op": 0, "cs_yield": k}}))
        faults = []
        if kind in ("download", "upload"):
            faults += [{"copy_error": {"pid": 0, "op": 0, "chunks": j}} for j in range(0, 5)]
            faults += [{"hash_error": {"pid": 0, "op": 0, "nth": j}} for j in range(0, 2)]
        if kind == "delete":
            faults += [{"unlink_error": {"pid": 0, "op": 0}}]
        if kind == "download_link":
            faults += [{"hash_error": {"pid": 0, "op": 0, "nth": 0}}]
        enumerated["exception"][kind] = len(faults)
        for fault in faults:
            for contenders in (1, 2, 3):
                for s in range(n_sched):
                    i += 1
                    plans.append(victim_plan(derive_seed(seed0, PROP, tier, i), kind, contenders, fault))
    for hold in (2, 6, 20, 60):
        for timeout in (3, 5):
            for waiters in (1, 2, 4):
                for jump in (False, True):
                    for s in range(n_sched):
                        i += 1
                        plans.append(timeout_plan(derive_seed(seed0, PROP, tier, i), hold, timeout, waiters, jump))
    return plans, lengths, enumerated


def reproduces(plan, violation):
    status, result = ppool.run_forked(execute, plan, 60)
    if status != "ok":
        return False, None
    return any(v["oracle"] == violation["oracle"] and v["signature"] == violation["signature"]
               for v in result["violations"]), result


def minimise(plan, violation, budget=40):
    """Drop processes and operations while the same violation class reproduces."""
    plan = copy.deepcopy(plan)
    changed = True
    while changed and budget > 0:
        changed = False
        for pid in range(len(plan["procs"]) - 1, -1, -1):
            if len(plan["procs"]) <= 1:
                break
            cand = copy.deepcopy(plan)
            special = [cand.get(k) for k in ("crash", "copy_error", "unlink_error", "hash_error")]
            if any(sp and sp["pid"] == pid for sp in special):
                continue
            # keep pids stable: empty the script instead of deleting the process
            if not cand["procs"][pid]:
                continue
            cand["procs"][pid] = []
            budget -= 1
            ok, _ = reproduces(cand, violation)
            if ok:
                plan, changed = cand, True
        for pid, script in enumerate(plan["procs"]):
            for j in range(len(script) - 1, -1, -1):
                cand = copy.deepcopy(plan)
                special = [cand.get(k) for k in ("crash", "copy_error", "unlink_error", "hash_error")]
                if any(sp and sp["pid"] == pid and sp["op"] >= j for sp in special):
                    continue
                del cand["procs"][pid][j]
                budget -= 1
                ok, _ = reproduces(cand, violation)
                if ok:
                    plan, changed = cand, True
                    break
                if budget <= 0:
                    break
    cand = copy.deepcopy(plan)
    cand["neutral"] = ["pick/"]
    ok, _ = reproduces(cand, violation)
    if ok:
        plan = cand
    return plan


def run_check(prop, tier, replay=None):
    t_start = time.monotonic()
    report = common.Report(PROP)
    seed0 = common.verif_seed()
    known = common.load_known()
    if replay:
        import json
        with open(replay) as handle:
            body = json.load(handle)
        ok, result = reproduces(body["plan"], body)
        if result is None:
            report.harness("replay run failed")
        elif ok:
            print(f"replay reproduces: {body['signature']} (digest {result['digest']})")
            report.violation(replay)
        else:
            print(f"replay does not reproduce {body['signature']!r}")
        return report.exit_code()
    plans, lengths, enumerated = build_plans(tier, seed0)
    for p in plans[:1]:
        p["_want_sample"] = True
    wall = float(os.environ.get("VERIF_WALL", 120 if tier == "quick" else 900))
    deadline = time.monotonic() + wall
    # fault plans first: they are the enumerated part and must all run
    order = sorted(range(len(plans)), key=lambda i: (plans[i]["family"] == "fault-free", i))
    plans = [plans[i] for i in order]
    results, skipped = ppool.run_batch(execute, plans, timeout=60, chunk=40, deadline=deadline)
    agg = {"runs": 0, "ilv": set(), "ilv_trigger": set(), "faults": {}, "probes": {}, "families": {}, "ops": 0,
           "vtime": 0.0, "steps": 0, "samples": []}
    fresh = {}
    fault_runs_done = 0
    for index, status, result, _ in results:
        if status != "ok":
            report.harness(f"run {index}: {result}")
            continue
        agg["runs"] += 1
        agg["ilv"].add(result["ilv"])
        if result["trigger"]:
            agg["ilv_trigger"].add(result["ilv"])
        agg["ops"] += result["ops"]
        agg["vtime"] += result["vtime"]
        agg["steps"] += result["steps"]
        fam = result["family"]
        agg["families"][fam] = agg["families"].get(fam, 0) + 1
        if fam != "fault-free":
            fault_runs_done += 1
        for k, v in result["faults"].items():
            agg["faults"][k] = agg["faults"].get(k, 0) + v
        for k, v in result["probes"].items():
            agg["probes"][k] = agg["probes"].get(k, 0) + v
        if "sample" in result:
            agg["samples"].append({"plan": {k: plans[index][k] for k in ("files", "procs", "family")},
                                   "history": result["sample"]})
        for v in result["violations"]:
            entry = common.match_known(v, known)
            if entry is not None:
                report.known_finding(entry)
                continue
            key = (v["oracle"], v["signature"])
            if key not in fresh:
                fresh[key] = (index, v)
    n_fault_plans = sum(1 for p in plans if p["family"] != "fault-free")
    if fault_runs_done < n_fault_plans and not report.harness_errors:
        report.harness(f"only {fault_runs_done} of {n_fault_plans} enumerated fault runs finished within the wall budget")
    for n, (key, (index, v)) in enumerate(sorted(fresh.items(), key=lambda kv: kv[1][0])[:12]):
        plan = {k: val for k, val in plans[index].items() if not k.startswith("_")}
        if n < 3:
            try:
                plan = minimise(plan, v)
            except Exception:
                pass
        path = common.write_replay(PROP, plan, v)
        report.violation(path)
    # determinism spot check
    mism = 0
    ok_idx = [r[0] for r in results if r[1] == "ok"][:6]
    for idx in ok_idx:
        status, again = ppool.run_forked(execute, plans[idx], 60)
        first = next(r for r in results if r[0] == idx)[2]
        if status != "ok" or again["digest"] != first["digest"]:
            mism += 1
    if mism:
        report.harness(f"determinism self-check failed for {mism}/{len(ok_idx)} plans")
    wall_s = time.monotonic() - t_start
    coverage = {
        "evaluations": agg["runs"],
        "distinct_nontrivial": len(agg["ilv_trigger"]),
        "rule": ("fault enumeration: for every operation kind (download, upload, delete, link download) a crash (process frozen, "
                 "kernel drops its locks) at EVERY yield point inside the critical section, and an injected exception at every "
                 "fallible call inside it (copy after j chunks, hash, unlink), each with 1-3 contending processes under several "
                 "seeded schedules; plus stalled holders vs waiter timeouts, clock jumps, and seeded fault-free interleavings of "
                 "2-8 processes. Distinct = distinct hash of the lock/copy/unlink/crash event sequence; non-trivial = lock "
                 "contention or a fault actually occurred in the run."),
        "samples": agg["samples"] or [{"note": "no sample"}],
        "critical_section_yield_points": lengths,
        "crash_points_enumerated": enumerated["crash"],
        "exception_points_enumerated": enumerated["exception"],
        "exhaustive": False,
        "exhaustive_part": "crash and exception points per operation kind are enumerated completely; schedules around them are sampled",
        "families": agg["families"],
        "distinct_interleavings": len(agg["ilv"]),
        "operations": agg["ops"],
        "simulated_seconds": round(agg["vtime"], 1),
        "scheduler_steps": agg["steps"],
        "runs_per_hour": int(agg["runs"] / max(wall_s, 1e-6) * 3600),
        "faults_fired": agg["faults"],
        "probes": agg["probes"],
        "seeds": {"rule": "H('seed', VERIF_SEED, 'C14', tier, i)", "planned": len(plans), "not_started_within_wall_budget": skipped},
        "determinism_selfcheck": {"plans_rerun": len(ok_idx), "digest_mismatches": mism},
        "real_components": ["avocado_i2n.states.pool.image_lock", "TransferOps.download_local/upload_local/delete_local/"
                            "download_link/upload_link/compare_local/compare_link", "real files in a scratch directory"],
        "stub_components": ["fcntl.lockf (record-lock table, owner = sim-process, dropped on death)", "time.sleep/time (virtual clock)",
                            "shutil.copy (4-byte chunks, yields between chunks)", "os.unlink/symlink/makedirs (yield, then real)",
                            "crypto.hash_file (yield, then md5 of the real file)", "processes are baton-passed threads"],
    }
    common.write_evidence(PROP, tier, seed0, LEVEL, coverage, [
        "POSIX record locks are modelled by a lock table keyed by lock file path with per-process ownership, released on unlock and on process death",
        "a crash is a process frozen forever at a seam call; data written so far stays on disk",
        "remote (ssh) transfers are outside the simulator; they take no lock in the code either (its own TODO)"],
        wall_s, report.violations)
    print(f"C14 {tier}: {agg['runs']} runs ({fault_runs_done} enumerated fault runs), {agg['ops']} operations, "
          f"{len(agg['ilv'])} distinct interleavings, {report.violations} violations, {wall_s:.0f}s", flush=True)
    return report.exit_code()
