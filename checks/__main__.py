"""Entry point: ``python -m checks <ID> --tier quick|thorough [--replay path]``."""
import argparse
import os
import sys

VERIF = os.path.dirname(os.path.dirname(os.path.abspath(__file__)))
if VERIF not in sys.path:
    sys.path.insert(0, VERIF)

TRAV = {"C01", "C02", "C03", "C04", "C05", "C06", "C07", "C08", "C09", "C10", "C15", "C16", "C20"}
STATE = {"C12", "C13", "C17"}
LOCK = {"C14"}


def main(argv=None):
    parser = argparse.ArgumentParser(prog="checks")
    parser.add_argument("prop")
    parser.add_argument("--tier", default=os.environ.get("VERIF_TIER", "quick"), choices=["quick", "thorough"])
    parser.add_argument("--replay", default=None)
    args = parser.parse_args(argv)
    # one fixed hash seed: set iteration order must never decide anything
    if os.environ.get("PYTHONHASHSEED") != "0" and not os.environ.get("VERIF_KEEP_HASHSEED"):
        env = dict(os.environ, PYTHONHASHSEED="0")
        os.execve(sys.executable, [sys.executable, "-m", "checks"] + (argv or sys.argv[1:]), env)
    import warnings
    warnings.simplefilter("ignore")
    # development aid: judge a scratch copy of the repository instead of /repo (never used by MANIFEST commands)
    alt = os.environ.get("VERIF_REPO")
    if alt:
        sys.path.insert(0, alt)
        import avocado_i2n
        assert avocado_i2n.__file__.startswith(alt), avocado_i2n.__file__
    prop = args.prop
    if prop in TRAV:
        from checks import trav
        return trav.run_check(prop, args.tier, args.replay)
    if prop in STATE:
        from checks import state
        return state.run_check(prop, args.tier, args.replay)
    if prop in LOCK:
        from checks import lock
        return lock.run_check(prop, args.tier, args.replay)
    if prop == "selftest":
        from checks import selftest
        return selftest.main(args.tier)
    sys.stderr.write(f"unknown property {prop}\n")
    return 3


if __name__ == "__main__":
    try:
        code = main()
    except SystemExit:
        raise
    except BaseException:  # noqa - a crash of the machinery is a harness failure (3), never a verdict
        import traceback
        traceback.print_exc()
        code = 3
    sys.exit(code)
