"""Fidelity of the fake record-lock table (engine C) against the real kernel.

Scripted scenarios are executed twice: by real forked processes using ``fcntl.lockf`` on real
files, and by the model used in ``locksim`` (locks belong to (inode, process); released by
unlock, by closing the descriptor, and by process death; a re-created lock file is a new inode).
This validates the stub; it does not decide C14.
"""
import errno
import fcntl
import os
import shutil
import signal
import tempfile


SCENARIOS = {
    "busy": [("A", "open"), ("A", "lock"), ("B", "open"), ("B", "lock")],
    "unlock": [("A", "open"), ("A", "lock"), ("A", "unlock"), ("B", "open"), ("B", "lock")],
    "death": [("A", "open"), ("A", "lock"), ("A", "die"), ("B", "open"), ("B", "lock")],
    "relock-same-process": [("A", "open"), ("A", "lock"), ("A", "lock")],
    "close-releases": [("A", "open"), ("A", "lock"), ("A", "close"), ("B", "open"), ("B", "lock")],
    "unlink-recreate": [("A", "open"), ("A", "lock"), ("A", "unlink"), ("B", "open"), ("B", "lock")],
    "waiter-keeps-old-inode": [("A", "open"), ("A", "lock"), ("B", "open"), ("A", "unlink"), ("B", "lock"), ("C", "open"), ("C", "lock")],
    "unlock-not-owner": [("A", "open"), ("A", "lock"), ("B", "open"), ("B", "unlock"), ("B", "lock")],
    "three-way": [("A", "open"), ("B", "open"), ("C", "open"), ("A", "lock"), ("B", "lock"), ("A", "unlock"), ("C", "lock"), ("B", "lock")],
    "death-of-waiter": [("A", "open"), ("A", "lock"), ("B", "open"), ("B", "lock"), ("B", "die"), ("A", "unlock"), ("C", "open"), ("C", "lock")],
}


def model(script):
    """The semantics locksim's fake kernel implements."""
    inode_of_path, next_inode = None, [0]
    fds, locks, out = {}, {}, []

    def new_inode():
        next_inode[0] += 1
        return next_inode[0]

    for proc, action in script:
        if action == "open":
            if inode_of_path is None:
                inode_of_path = new_inode()
            fds[proc] = inode_of_path
            out.append("ok")
        elif action == "lock":
            inode = fds[proc]
            owner = locks.get(inode)
            if owner is not None and owner != proc:
                out.append("EAGAIN")
            else:
                locks[inode] = proc
                out.append("ok")
        elif action == "unlock":
            if locks.get(fds[proc]) == proc:
                del locks[fds[proc]]
            out.append("ok")
        elif action == "close":
            if locks.get(fds[proc]) == proc:
                del locks[fds[proc]]
            del fds[proc]
            out.append("ok")
        elif action == "die":
            for inode, owner in list(locks.items()):
                if owner == proc:
                    del locks[inode]
            fds.pop(proc, None)
            out.append("ok")
        elif action == "unlink":
            inode_of_path = None
            out.append("ok")
    return out


def _child(path, rfd, wfd):
    handle = None
    with os.fdopen(rfd, "r") as commands, os.fdopen(wfd, "w") as replies:
        for line in commands:
            action = line.strip()
            try:
                if action == "open":
                    handle = open(path, "ab")
                elif action == "lock":
                    fcntl.lockf(handle, fcntl.LOCK_EX | fcntl.LOCK_NB)
                elif action == "unlock":
                    fcntl.lockf(handle, fcntl.LOCK_UN)
                elif action == "close":
                    handle.close()
                elif action == "unlink":
                    os.unlink(path)
                replies.write("ok\n")
            except OSError as error:
                replies.write(("EAGAIN" if error.errno in (errno.EAGAIN, errno.EACCES) else f"errno{error.errno}") + "\n")
            replies.flush()
    os._exit(0)


def real(script):
    root = tempfile.mkdtemp(prefix="lockfid-", dir="/dev/shm" if os.path.isdir("/dev/shm") else None)
    path = os.path.join(root, "f.lock")
    procs, out = {}, []
    try:
        for proc in sorted({p for p, _ in script}):
            c_r, c_w = os.pipe()
            r_r, r_w = os.pipe()
            pid = os.fork()
            if pid == 0:
                os.close(c_w)
                os.close(r_r)
                _child(path, c_r, r_w)
            os.close(c_r)
            os.close(r_w)
            procs[proc] = (pid, os.fdopen(c_w, "w"), os.fdopen(r_r, "r"))
        for proc, action in script:
            pid, cmd, rep = procs[proc]
            if action == "die":
                os.kill(pid, signal.SIGKILL)
                os.waitpid(pid, 0)
                out.append("ok")
                continue
            cmd.write(action + "\n")
            cmd.flush()
            out.append(rep.readline().strip())
    finally:
        for proc, (pid, cmd, rep) in procs.items():
            try:
                cmd.close()
                rep.close()
                os.kill(pid, signal.SIGKILL)
            except OSError:
                pass
            try:
                os.waitpid(pid, 0)
            except ChildProcessError:
                pass
        shutil.rmtree(root, ignore_errors=True)
    return out


def main():
    bad = 0
    for name, script in SCENARIOS.items():
        m, r = model(script), real(script)
        ok = m == r
        bad += 0 if ok else 1
        print(("ok  " if ok else "DIFF"), "lock-fidelity", name, r if ok else {"model": m, "kernel": r})
    return bad


if __name__ == "__main__":
    raise SystemExit(1 if main() else 0)
