"""Determinism self-test: same plan => same event digest, in a forked child, twice, in a fresh
interpreter under another PYTHONHASHSEED, and (travsim) with the parser memo disabled.

A mismatch is a harness failure (exit 3), never a VIOLATION.
"""
import json
import os
import subprocess
import sys
import tempfile
import time

from sim import pool
from sim.plan import derive_seed


def fresh(plan, hashseed, no_memo=False):
    with tempfile.NamedTemporaryFile("w", suffix=".json", delete=False) as handle:
        json.dump(plan, handle)
        path = handle.name
    env = dict(os.environ, PYTHONHASHSEED=str(hashseed))
    if no_memo:
        env["VERIF_NO_MEMO"] = "1"
    try:
        out = subprocess.run([sys.executable, "-W", "ignore", "-m", "checks.runone", path], capture_output=True, text=True,
                             env=env, cwd=os.path.dirname(os.path.dirname(os.path.abspath(__file__))), timeout=900)
    finally:
        os.unlink(path)
    for line in out.stdout.splitlines():
        if line.startswith("DIGEST"):
            return line.split()[1]
    return "FAILED:" + (out.stderr or out.stdout)[-400:]


def main(tier):
    from checks import trav, lock, state
    from travsim import scenarios
    t0 = time.monotonic()
    n_trav = 8 if tier == "quick" else 48
    n_other = 6 if tier == "quick" else 40
    jobs = []
    for i, prop in enumerate(["C08", "C03", "C01", "C02", "C04", "C05", "C10", "C09", "C16", "C07", "C15", "C20"] * 4):
        if len([j for j in jobs if j[0] == "travsim"]) >= n_trav:
            break
        jobs.append(("travsim", trav.execute, scenarios.plan_for(prop, derive_seed(7, prop, "selftest", i), "quick")))
    for i in range(n_other):
        jobs.append(("locksim", lock.execute, lock.random_plan(derive_seed(7, "C14", "selftest", i))))
        prop = ["C12", "C13", "C17"][i % 3]
        jobs.append(("statesim", state.execute, state.PLANNERS[prop](derive_seed(7, prop, "selftest", i), "quick")))
    bad = 0
    for k, (engine, fn, plan) in enumerate(jobs):
        a = pool.run_forked(fn, plan, 300)
        b = pool.run_forked(fn, plan, 300)
        digests = {"fork1": a[1]["digest"] if a[0] == "ok" else a[1], "fork2": b[1]["digest"] if b[0] == "ok" else b[1]}
        # fresh interpreters are expensive for travsim (cold parser): do them for every plan in thorough, a third in quick
        if tier != "quick" or k % 3 == 0 or engine != "travsim":
            digests["fresh/hashseed=12345"] = fresh(plan, 12345)
        if engine == "travsim" and (tier != "quick" or k % 6 == 0):
            digests["fresh/no-memo/hashseed=1"] = fresh(plan, 1, no_memo=True)
        ok = len(set(digests.values())) == 1
        print(("ok  " if ok else "DIFF"), engine, plan.get("property"), plan["seed"], digests if not ok else list(digests.values())[0],
              f"({len(digests)} runs)", flush=True)
        bad += 0 if ok else 1
    from checks import lock_fidelity
    bad += lock_fidelity.main()
    print(f"selftest: {len(jobs)} plans, {bad} with differing digests or lock-model mismatches, {time.monotonic() - t0:.0f}s")
    return 3 if bad else 0
