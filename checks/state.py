"""Driver for the statesim (engine B) properties: C12, C13, C17."""
import copy
import json
import os
import shutil
import tempfile
import time

from checks import common
from sim import pool as ppool
from sim.plan import derive_seed, H

LEVEL = "exploration"


def _quiet():
    import logging
    import warnings
    logging.disable(logging.CRITICAL)
    warnings.simplefilter("ignore")


def pick(seed, key, options):
    return options[H(seed, "stategen", key) % len(options)]


# --------------------------------------------------------------------------------------------
# C17
# --------------------------------------------------------------------------------------------

def plan_C17(seed, tier):
    from statesim import vmstates
    n_images = pick(seed, "nimages", [1, 2, 2, 3, 3])
    images = [f"image{i + 1}" for i in range(n_images)]
    backend = pick(seed, "backend", ["internal", "external"])
    names = vmstates.NAMES[:pick(seed, "nnames", [3, 4, 5, 7])]
    steps = []
    for i in range(pick(seed, "nsteps", [3, 6, 10, 14, 20])):
        op = pick(seed, f"op{i}", ["vm_set", "vm_set", "vm_set", "vm_unset", "img_set", "img_set", "img_unset",
                                   "mem_set", "mem_unset", "lost_write"])
        if backend == "internal" and op.startswith("mem_"):
            op = "img_set"
        step = {"op": op, "state": pick(seed, f"state{i}", names), "image": pick(seed, f"image{i}", images)}
        if backend == "internal":
            on = pick(seed, f"on{i}", [True, True, False]) if op == "img_set" else True
            step["size"] = pick(seed, f"size{i}", vmstates.ON_SIZES) if on else "0 B"
        if op in ("vm_set", "vm_unset") and pick(seed, f"crash{i}", [False, False, True]):
            step["crash_after"] = pick(seed, f"crashat{i}", list(range(0, n_images + 1)))
        steps.append(step)
    return {"seed": seed, "property": "C17", "engine": "statesim", "backend": backend, "images": images,
            "steps": steps, "decisions": {}, "neutral": []}


def execute(plan):
    _quiet()
    from travsim.run import scratch_root
    root = tempfile.mkdtemp(prefix="statesim-", dir=scratch_root())
    t0 = time.monotonic()
    try:
        if plan["property"] == "C17":
            from statesim import vmstates
            result = vmstates.run_plan(plan, root)
        elif plan["property"] == "C12":
            from statesim import policy
            result = policy.run_plan(plan, root)
        elif plan["property"] == "C13" and plan.get("kind") == "chains":
            from statesim import chains
            result = chains.run_plan(plan, root)
        elif plan["property"] == "C13":
            from statesim import scopes
            result = scopes.run_plan(plan, root)
        else:
            raise AssertionError(plan["property"])
    finally:
        shutil.rmtree(root, ignore_errors=True)
    result["wall"] = time.monotonic() - t0
    result["digest"] = "%016x" % H(json.dumps(result["events"], sort_keys=True, default=str))
    return result


def execute_many(plans):
    """Statesim runs are tiny: a child runs a whole slice of plans."""
    return [execute(p) for p in plans]


def reproduces(plan, violation):
    status, result = ppool.run_forked(execute, plan, 60)
    if status != "ok":
        return False, None
    return any(v["oracle"] == violation["oracle"] and v["signature"] == violation["signature"]
               for v in result["violations"]), result


def minimise(plan, violation, budget=60):
    """Drop history steps (from the end first) while the same violation class reproduces."""
    plan = copy.deepcopy(plan)
    key = "steps"
    changed = True
    while changed and budget > 0:
        changed = False
        for j in range(len(plan[key]) - 1, -1, -1):
            cand = copy.deepcopy(plan)
            del cand[key][j]
            budget -= 1
            ok, _ = reproduces(cand, violation)
            if ok:
                plan, changed = cand, True
            if budget <= 0:
                break
    return plan


# --------------------------------------------------------------------------------------------
# C12
# --------------------------------------------------------------------------------------------

STATE_NAMES = ["s1", "s2", "install", "customize"]
LETTERS = ["a", "r", "i", "f", "x"]


def plan_C12(seed, tier):
    nvms = pick(seed, "nvms", [1, 2, 2, 3])
    vms = [f"vm{i + 1}" for i in range(nvms)]
    chain = pick(seed, "chain", ["nets vms images", "nets vms images", "vms images"])
    base = {"states_chain": chain, "states_nets": "mem", "states_vms": "mem", "states_images": "mem",
            "nets": "net1", "vms": " ".join(vms), "images": "image1"}
    images = {}
    for vm in vms:
        images[vm] = ["image1", "image2"] if pick(seed, f"nimg{vm}", [1, 1, 2]) == 2 else ["image1"]
        if len(images[vm]) == 2:
            base[f"images_{vm}"] = "image1 image2"
    strict = pick(seed, "check_mode", ["rf", "rf", "rr", "ff", "rx"])
    base["check_mode"] = strict
    types = chain.split()
    type_paths = ["/".join(types[:i + 1]) for i in range(len(types))]
    skip = pick(seed, "skip", ["", "", "", type_paths[0], type_paths[-1], " ".join(type_paths[:2])])
    if skip:
        base["skip_types"] = skip
    if pick(seed, "readonly", [False, False, True]):
        vm = pick(seed, "rovm", vms)
        base[f"image_readonly_{pick(seed, 'roimg', images[vm])}_{vm}"] = "yes"
    # initial store: some roots and states exist
    initial = []
    net = "net1" if "nets" in types else ""
    if "nets" in types and pick(seed, "netroot", [True, True, False]):
        initial.append((("nets", "net1"), {"root": True, "states": [s for s in STATE_NAMES if pick(seed, f"ins{s}", [0, 0, 1])]}))
    for vm in vms:
        if pick(seed, f"vmroot{vm}", [True, True, False]):
            initial.append((("vms", vm), {"root": True, "states": [s for s in STATE_NAMES if pick(seed, f"ivs{vm}{s}", [0, 0, 1])]}))
        for image in images[vm]:
            if pick(seed, f"imgroot{vm}{image}", [True, True, True, False]):
                initial.append((("images", vm, image),
                                {"root": True, "states": [s for s in STATE_NAMES if pick(seed, f"iis{vm}{image}{s}", [0, 1])]}))
    steps = []
    for i in range(pick(seed, "nsteps", [1, 2, 4, 8, 16, 30])):
        op = pick(seed, f"op{i}", ["check", "get", "get", "set", "set", "set", "unset", "unset", "push", "pop"])
        params = {}
        nkeys = pick(seed, f"nkeys{i}", [1, 1, 2, 3])
        for j in range(nkeys):
            typ = pick(seed, f"typ{i}/{j}", ["images", "images", "vms", "vms", "nets"] if "nets" in types else ["images", "images", "vms"])
            vm = pick(seed, f"vm{i}/{j}", vms)
            form = pick(seed, f"form{i}/{j}", ["type", "type_vm", "type_img_vm", "plain_vm"])
            state = pick(seed, f"st{i}/{j}", STATE_NAMES + (["root", "boot"] if op not in ("push", "pop") else []) + ["s1", "s2"])
            if typ == "nets":
                key = f"{op}_state_nets"
            elif form == "type":
                key = f"{op}_state_{typ}"
            elif form == "type_vm":
                key = f"{op}_state_{typ}_{vm}"
            elif form == "type_img_vm" and typ == "images":
                key = f"{op}_state_images_{pick(seed, f'img{i}/{j}', images[vm])}_{vm}"
            else:
                key = f"{op}_state_{typ}_{vm}"
            params[key] = state
        # real test parameters carry the states of the other operations too (a node gets, sets and unsets):
        # they must not influence this operation
        if op in ("check", "get", "set", "unset") and pick(seed, f"foreign{i}", [False, False, True]):
            for j in range(pick(seed, f"nforeign{i}", [1, 2])):
                other = pick(seed, f"fop{i}/{j}", [o for o in ("get", "set", "unset") if o != op])
                typ = pick(seed, f"ftyp{i}/{j}", ["images", "vms"])
                vm = pick(seed, f"fvm{i}/{j}", vms)
                key = f"{other}_state_{typ}" if pick(seed, f"fform{i}/{j}", [0, 1]) else f"{other}_state_{typ}_{vm}"
                params.setdefault(key, pick(seed, f"fst{i}/{j}", STATE_NAMES))
        mode = pick(seed, f"m1{i}", LETTERS) + pick(seed, f"m2{i}", LETTERS)
        if pick(seed, f"usemode{i}", [True, True, False]):
            params[f"{op}_mode"] = mode
            if pick(seed, f"modeovr{i}", [False, False, True]):
                params[f"{op}_mode_{pick(seed, f'movm{i}', vms)}"] = pick(seed, f"m3{i}", LETTERS) + pick(seed, f"m4{i}", LETTERS)
        step = {"op": op, "params": params, "modes": params.get(f"{op}_mode")}
        if pick(seed, f"fault{i}", [False] * 9 + [True]):
            step["fault_at"] = pick(seed, f"faultat{i}", [0, 1, 2, 3, 5, 8])
        steps.append(step)
    return {"seed": seed, "property": "C12", "engine": "statesim", "base": base, "initial": initial, "steps": steps,
            "decisions": {}, "neutral": []}


# --------------------------------------------------------------------------------------------
# C13
# --------------------------------------------------------------------------------------------

def plan_chains(seed, tier):
    """File level histories (statesim.chains): fetch / save / remove state chains, foreign saves, crashes mid-download."""
    nworkers = pick(seed, "nworkers", [2, 3, 3, 4])
    gateways = ["", "gw1", "gw2"][:pick(seed, "ngw", [1, 2, 2, 3])]
    workers = {}
    for i in range(nworkers):
        workers[f"net{i + 1}"] = {"gateway": pick(seed, f"gw{i}", gateways),
                                  "host": pick(seed, f"host{i}", ["h1", "h2", "h3"][:pick(seed, "nhosts", [1, 2, 3, 3])])}
    names = sorted(workers)
    hosts = sorted({(d["gateway"], d["host"]) for d in workers.values()})
    backing = pick(seed, "backing", [
        {"s1": "customize", "customize": "install", "s2": "install", "install": ""},
        {"s1": "install", "s2": "s1", "customize": "", "install": ""},
        {"s1": "", "s2": "", "customize": "", "install": ""}])
    states = ["s1", "s2", "customize", "install"]
    memory = pick(seed, "memory", [False, True, True])
    images = ["image1", "image2"] if memory and pick(seed, "twoimages", [0, 1]) else ["image1"]
    initial = []
    for h in hosts:
        for kind in ("shared", "swarm"):
            for st in states:
                if pick(seed, f"init/{h}/{kind}/{st}", [0, 1, 1]):
                    initial.append({"pool": [kind, list(h)], "state": st, "images": images, "memory": memory,
                                    "version": pick(seed, f"initv/{h}/{kind}/{st}", ["v0", "v0", "v0", "v1"])})
    steps, version = [], 1
    for i in range(pick(seed, "nsteps", [2, 4, 8, 12, 20])):
        op = pick(seed, f"op{i}", ["get", "get", "get", "get", "set", "unset", "foreign_save", "foreign_save", "lost_state"])
        st = pick(seed, f"st{i}", states)
        if op in ("foreign_save", "lost_state"):
            version += 1
            steps.append({"op": op, "pool": [pick(seed, f"fk{i}", ["shared", "swarm"]), list(pick(seed, f"fh{i}", hosts))],
                          "state": st, "images": images, "memory": memory, "version": f"v{version}",
                          "part": pick(seed, f"part{i}", ["all", "all", "memory", "top", "backing"])})
            continue
        me = pick(seed, f"me{i}", names)
        scope = " ".join(s for s in ["own", "swarm", "cluster", "shared"] if pick(seed, f"sc{i}/{s}", [0, 1, 1, 1]))
        candidates = [":" + SHARED_PATH] + [f"{w}:{SWARM_PATH}" for w in names]
        chosen = [c for c in candidates if pick(seed, f"src{i}/{c}", [0, 1, 1])]
        chosen.sort(key=lambda c: H(seed, "perm", i, c))
        step = {"op": op, "worker": me, "scope": scope, "sources": chosen, "state": st, "images": images, "memory": memory}
        if op == "get" and pick(seed, f"crash{i}", [0, 0, 0, 1]):
            crashed = dict(step)
            crashed["crash_at"] = pick(seed, f"crashat{i}", [0, 1, 2, 3, 4])
            steps.append(crashed)
        steps.append(step)
    return {"seed": seed, "property": "C13", "engine": "statesim", "kind": "chains", "workers": workers, "backing": backing,
            "initial": initial, "steps": steps, "decisions": {}, "neutral": []}


def plan_C13(seed, tier):
    if pick(seed, "kind", ["scopes", "scopes", "chains"]) == "chains":
        return plan_chains(seed, tier)
    nworkers = pick(seed, "nworkers", [2, 3, 3, 4, 5, 6])
    gateways = ["", "gw1", "gw2"][:pick(seed, "ngw", [1, 2, 2, 3])]
    workers = {}
    for i in range(nworkers):
        gw = pick(seed, f"gw{i}", gateways)
        host = pick(seed, f"host{i}", ["h1", "h2", "h3"][:pick(seed, "nhosts", [1, 2, 3, 3])])
        workers[f"net{i + 1}"] = {"gateway": gw, "host": host}
    names = sorted(workers)
    states = ["install", "customize", "s1", "s2"]
    initial = []
    hosts = sorted({(d["gateway"], d["host"]) for d in workers.values()})
    for h in hosts:
        for kind in ("shared", "swarm"):
            for st in states + ["root"]:
                if pick(seed, f"init/{h}/{kind}/{st}", [0, 0, 1]):
                    initial.append({"pool": [kind, list(h)], "state": st})
    steps = []
    for i in range(pick(seed, "nsteps", [2, 5, 10, 20, 30])):
        op = pick(seed, f"op{i}", ["show", "show", "get", "get", "get", "set", "set", "unset", "unset",
                                   "set_root", "unset_root", "check_root", "get_root", "foreign_set", "lost_write"])
        st = pick(seed, f"st{i}", states)
        if op in ("foreign_set", "lost_write"):
            h = pick(seed, f"fh{i}", hosts)
            steps.append({"op": op, "pool": [pick(seed, f"fk{i}", ["shared", "swarm"]), list(h)], "state": st})
            continue
        me = pick(seed, f"me{i}", names)
        if op in ("set_root", "unset_root", "check_root", "get_root"):
            scope = pick(seed, f"rscope{i}", ["own", "shared", "own", "shared", "own shared", "swarm", "own swarm cluster shared"])
            step = {"op": op, "worker": me, "scope": scope, "sources": [], "state": "root"}
            if op == "get_root" and pick(seed, f"rinv{i}", [0, 0, 1]):
                step["invalid"] = ["root"]
            steps.append(step)
            continue
        scope = " ".join(s for s in ["own", "swarm", "cluster", "shared"] if pick(seed, f"sc{i}/{s}", [0, 1, 1]))
        candidates = [":" + SHARED_PATH] + [f"{w}:{SWARM_PATH}" for w in names] + \
            [f"{w}:{SHARED_PATH}" for w in names if pick(seed, f"rsh{i}/{w}", [0, 0, 1])]
        chosen = [c for c in candidates if pick(seed, f"src{i}/{c}", [0, 1, 1])]
        # a seeded permutation
        chosen.sort(key=lambda c: H(seed, "perm", i, c))
        step = {"op": op, "worker": me, "scope": scope, "sources": chosen, "state": st}
        if op == "get" and pick(seed, f"inv{i}", [0, 0, 1]):
            step["invalid"] = [st]
        steps.append(step)
    return {"seed": seed, "property": "C13", "engine": "statesim", "workers": workers, "initial": initial, "steps": steps,
            "decisions": {}, "neutral": []}


SHARED_PATH = "/mnt/shared"
SWARM_PATH = "/mnt/swarm"
PLANNERS = {"C17": plan_C17, "C12": plan_C12, "C13": plan_C13}
BUDGETS = {"C17": {"quick": (3000, 60), "thorough": (200000, 600)},
           "C12": {"quick": (3000, 60), "thorough": (200000, 600)},
           "C13": {"quick": (3000, 60), "thorough": (200000, 600)}}
RULES = {
    "C17": ("histories of per-vm and per-image set/unset operations over a vm with 1-3 images (internal qcow2 snapshots listed in "
            "qemu-img format, or external state files plus memory files), vm-level operations may crash between their per-image "
            "steps and transfers may lose a file; after every step the real listing code is compared with a set model. "
            "Distinct = distinct final assignment of state-name sets to images and memory; non-trivial = the vm has >= 2 images."),
}
RULES["C12"] = ("histories of check/get/set/unset/push/pop calls on 1-3 vms with 1-2 images, state parameters given through type/vm/image "
               "suffixes, two-letter modes over {a,r,i,f,other}, skip_types, readonly images, root keywords, check_mode variants, and a "
               "backend error injected at the k-th backend call of some steps; every step is compared with the README policy table and "
               "a set-of-names store model (outcome class, resulting store, no call for unaddressed objects). Distinct = distinct final "
               "store; non-trivial = a history with a state-changing operation or a non-ok outcome.")
RULES["C13"] = ("histories of show/get/set/unset/root operations by 2-6 workers placed on 1-3 gateways x 1-3 hosts, each with a random subset of "
               "pool_scope and a random subset/permutation of sources (shared path, every worker's swarm and shared path), over pools whose "
               "contents evolve (other workers' sets, lost writes, invalid caches); the contact log of the fake transport is compared with an "
               "independently written scope/proximity model. One third of the histories are file-level: the real chain transport over an in-memory file store, "
               "states with backing chains of depth 0-2 on 1-2 images with or without a memory file, other workers saving new versions of single files, lost states and a "
               "crash in the middle of a download followed by a retry; after a fetch the cache must equal the closest permitted source, an identical copy must not be "
               "downloaded again, saves and removals must reach every permitted mirror. Distinct = distinct final placement of states/files; non-trivial = a remote source was contacted.")
ASSUMPTIONS = {
    "C17": ["QemuImg is replaced by a fake that prints qemu-img snapshot listings; external states are empty files in a scratch directory",
            "vm-level set/unset are modelled as their per-image file operations (the real _set/_unset need a running vm)"],
}
ASSUMPTIONS["C12"] = ["an in-memory backend registered in ss.BACKENDS stands for all real backends; unset_root keeps saved states (as external state files do)",
                     "the experimental check_mode (root prerequisite) is modelled as coded; the strict 'no alteration on abort' reading holds in the check_mode=rr family",
                     "where the documentation is silent (objects processed before an aborting one, state of an object after an injected backend error) both outcomes are accepted"]
ASSUMPTIONS["C13"] = ["workers on the same gateway and host reach the same directories; a state is a name in a pool",
                     "'closest' is the documented order own < shared (same host) < swarm (same gateway) < cluster (other gateway); ties are free",
                     "there is no scheduling inside a single pool operation; the simulated part is the multi-party store and its history"]
REAL = {
    "C17": ["qcow2.QCOW2VTBackend.show", "qcow2.QCOW2Backend.show (QEMU_ON/OFF_STATES_REGEX)", "ramfile.RamfileBackend._show",
            "qcow2.QCOW2ExtBackend.show/_show", "pool.SourcedStateBackend.show"],
}
REAL["C12"] = ["avocado_i2n.states.setup: check_states/get_states/set_states/unset_states/push_states/pop_states, _parametric_object_iteration, _state_check_chain",
              "virttest Params.object_params"]
REAL["C13"] = ["pool.SourcedStateBackend.show/get/set/unset/get_sources/get_source_scope", "pool.RootSourcedStateBackend.check_root/set_root/unset_root",
               "file-level histories: pool.QCOW2ImageTransfer.show/get/set/unset/compare_chain/transfer_chain, pool.TransferOps.list_paths/compare/download/upload/delete (dispatch)"]
STUBS = {
    "C17": ["virttest QemuImg (fake snapshot listing)", "disk (scratch directory + in-memory internal snapshot table)"],
}


STUBS["C12"] = ["state backends (one in-memory backend with a call log and an injectable error)", "test environment / vm objects"]


STUBS["C13"] = ["local backend (_show/_get/_set/_unset/_check_root/...: in-memory cache per host)", "transport (recording fake over the simulated pools) in the scope-level histories",
                "file-level histories: leaf file operations *_local/*_remote (in-memory file store per host directory) and get_dependency (backing chain given by the scenario; the real one asks qemu-img)"]


def nontrivial(prop, plan, result):
    if prop == "C17":
        return len(plan["images"]) >= 2
    return bool(result.get("nontrivial", True))


def run_check(prop, tier, replay=None):
    t_start = time.monotonic()
    report = common.Report(prop)
    seed0 = common.verif_seed()
    known = common.load_known()
    if replay:
        with open(replay) as handle:
            body = json.load(handle)
        ok, result = reproduces(body["plan"], body)
        if result is None:
            report.harness("replay run failed")
        elif ok:
            print(f"replay reproduces: {body['signature']} (digest {result['digest']})")
            report.violation(replay)
        else:
            print(f"replay does not reproduce {body['signature']!r}")
        return report.exit_code()
    n, wall = BUDGETS[prop][tier]
    n = int(os.environ.get("VERIF_RUNS", n))
    wall = float(os.environ.get("VERIF_WALL", wall))
    plans = [PLANNERS[prop](derive_seed(seed0, prop, tier, i), tier) for i in range(n)]
    slices = [plans[i:i + 50] for i in range(0, len(plans), 50)]
    deadline = time.monotonic() + wall
    results, skipped = ppool.run_batch(execute_many, slices, timeout=120, chunk=1, deadline=deadline)
    runs, distinct, distinct_nt, faults, probes = 0, set(), set(), {}, {}
    fresh, samples = {}, []
    for index, status, result, _ in results:
        if status != "ok":
            report.harness(f"slice {index}: {result}")
            continue
        for j, r in enumerate(result):
            plan = slices[index][j]
            runs += 1
            distinct.add(r["assignment"])
            if nontrivial(prop, plan, r):
                distinct_nt.add(r["assignment"])
            for k, v in r["faults"].items():
                faults[k] = faults.get(k, 0) + v
            for k, v in r.get("probes", {}).items():
                probes[k] = probes.get(k, 0) + v
            if len(samples) < 2 and len(r["events"]) > 3:
                samples.append({"plan": {k: v for k, v in plan.items() if k not in ("decisions", "neutral")},
                                "history": r["events"][:40]})
            for v in r["violations"]:
                entry = common.match_known(v, known)
                if entry is not None:
                    report.known_finding(entry)
                    continue
                key = (v["oracle"], v["signature"])
                if key not in fresh:
                    fresh[key] = (plan, v)
    for n_v, (key, (plan, v)) in enumerate(sorted(fresh.items(), key=lambda kv: kv[0])[:12]):
        if n_v < 4:
            try:
                plan = minimise(plan, v)
            except Exception:
                pass
        path = common.write_replay(prop, plan, v)
        report.violation(path)
    # determinism spot check
    mism = 0
    for plan in plans[:5]:
        a = ppool.run_forked(execute, plan, 60)
        b = ppool.run_forked(execute, plan, 60)
        if a[0] != "ok" or b[0] != "ok" or a[1]["digest"] != b[1]["digest"]:
            mism += 1
    if mism:
        report.harness(f"determinism self-check failed for {mism}/5 plans")
    wall_s = time.monotonic() - t_start
    coverage = {
        "evaluations": runs, "distinct_nontrivial": len(distinct_nt), "rule": RULES[prop],
        "samples": samples or [{"note": "no sample"}], "distinct_cases": len(distinct),
        "faults_fired": faults, "probes": probes, "runs_per_hour": int(runs / max(wall_s, 1e-6) * 3600),
        "seeds": {"rule": f"H('seed', VERIF_SEED, '{prop}', tier, i)", "planned": len(plans),
                  "not_started_within_wall_budget": skipped * 50},
        "determinism_selfcheck": {"plans_rerun": 5, "digest_mismatches": mism},
        "real_components": REAL[prop], "stub_components": STUBS[prop], "exhaustive": False,
    }
    common.write_evidence(prop, tier, seed0, LEVEL, coverage, ASSUMPTIONS[prop], wall_s, report.violations)
    print(f"{prop} {tier}: {runs} histories, {len(distinct)} distinct cases ({len(distinct_nt)} non-trivial), "
          f"{report.violations} violations, {sum(report.known.values())} known-finding hits, {wall_s:.0f}s", flush=True)
    return report.exit_code()
