"""C13, file level: what a fetch / save / removal through the pools does to the files of a state chain.

Real code: ``pool.SourcedStateBackend.get/set/unset`` (source choice, cache validity decision),
``pool.QCOW2ImageTransfer.show/get/set/unset/compare_chain/transfer_chain`` and the dispatching
half of ``pool.TransferOps`` (``list_paths/compare/download/upload/delete``).  Stubs: the leaf file
operations (``*_local`` / ``*_remote``: an in-memory file store per host directory, content is a
version string), ``get_dependency`` (the backing chain is part of the scenario, the real one asks
qemu-img) and the local backend ``_show/_get/_set/_unset``.

A state of an image is ``<vm>/<image>/<state>.qcow2`` plus the same file of every backing state; a
state of a vm is that for all its images plus the memory file ``<vm>/<state>.state``.  Faults: other
workers saving a new version of some file of a chain into a pool, a pool losing a state, and a crash
in the middle of a download (the file being written is left torn, the files after it are not
written at all); a crashed fetch is followed by a plain retry.
"""
from statesim.scopes import SHARED, SWARM, ORDER, scope_class


def V(oracle, signature, **detail):
    return {"property": "C13", "oracle": oracle, "signature": signature, "detail": detail}


class Injected(OSError):
    pass


def chain_files(vm_id, images, state, backing, with_memory):
    """Relative paths of all files a state consists of (top state first, as the code transfers them)."""
    files = []
    cur = state
    while cur:
        for image in images:
            files.append(f"{vm_id}/{image}/{cur}.qcow2")
        if cur == state and with_memory:
            files.append(f"{vm_id}/{cur}.state")
        cur = backing.get(cur, "")
    return files


def top_files(vm_id, images, state, with_memory):
    files = [f"{vm_id}/{image}/{state}.qcow2" for image in images]
    if with_memory:
        files.append(f"{vm_id}/{state}.state")
    return files


def run_plan(plan_data, root):
    from virttest.utils_params import Params
    from avocado_i2n.states import pool
    deployment = plan_data["workers"]
    host_of = {w: (d["gateway"], d["host"]) for w, d in deployment.items()}
    backing = plan_data["backing"]
    vm_id = "vm1-x"
    fs = {}          # (store, relative path) -> content
    ctx = {"me": None, "crash_at": None, "downloads": 0}
    log = []

    def store_for(path):
        """(store, relative path, location string) of a path as the code spells it."""
        head = path.split("/")[0]
        if ":" in head:
            net, rest = path.split(":", 1)
            host = host_of[net]
            loc_net = net
        else:
            rest, host, loc_net = path, host_of[ctx["me"]], ""
        for base, kind in ((SWARM, "swarm"), (SHARED, "shared")):
            if rest == base or rest.startswith(base + "/"):
                return (kind, host), rest[len(base):].lstrip("/"), f"{loc_net}:{base}" if (loc_net or kind == "shared") else "cache"
        raise AssertionError(f"simulator: path outside the pools: {path}")

    def read(path):
        store, rel, _ = store_for(path)
        return fs.get((store, rel))

    class SimOps(pool.TransferOps):
        @staticmethod
        def _list(pool_path, params):
            store, rel, loc = store_for(pool_path)
            log.append(("list", loc, rel))
            prefix = rel.rstrip("/") + "/"
            return sorted({k[1][len(prefix):] for k in fs if k[0] == store and k[1].startswith(prefix)
                           and "/" not in k[1][len(prefix):]})

        @staticmethod
        def _compare(cache_path, pool_path, params):
            _, rel, loc = store_for(pool_path)
            log.append(("compare", loc, rel))
            return (read(cache_path) or "") == (read(pool_path) or "")

        @staticmethod
        def _download(cache_path, pool_path, params):
            store, rel, loc = store_for(pool_path)
            cstore, crel, _ = store_for(cache_path)
            data = fs.get((store, rel))
            if data is None:
                log.append(("download-missing", loc, rel))
                raise FileNotFoundError(pool_path)
            if fs.get((cstore, crel)) == data:
                log.append(("download-skip", loc, rel))
                return
            n = ctx["downloads"]
            ctx["downloads"] += 1
            if ctx["crash_at"] is not None and n == ctx["crash_at"]:
                fs[(cstore, crel)] = "torn:" + data
                log.append(("download-torn", loc, rel))
                raise Injected(5, "crash during download")
            fs[(cstore, crel)] = data
            log.append(("download", loc, rel))

        @staticmethod
        def _upload(cache_path, pool_path, params):
            store, rel, loc = store_for(pool_path)
            cstore, crel, _ = store_for(cache_path)
            data = fs.get((cstore, crel))
            if data is None:
                log.append(("upload-missing", loc, rel))
                raise FileNotFoundError(cache_path)
            if fs.get((store, rel)) == data:
                log.append(("upload-skip", loc, rel))
                return
            fs[(store, rel)] = data
            log.append(("upload", loc, rel))

        @staticmethod
        def _delete(pool_path, params):
            store, rel, loc = store_for(pool_path)
            log.append(("delete", loc, rel))
            if (store, rel) not in fs:
                raise FileNotFoundError(pool_path)
            del fs[(store, rel)]

        list_local = list_remote = _list
        compare_local = compare_remote = _compare
        download_local = download_remote = _download
        upload_local = upload_remote = _upload
        delete_local = delete_remote = _delete

    class SimTransfer(pool.QCOW2ImageTransfer):
        ops = SimOps

        @classmethod
        def get_dependency(cls, state, params):
            return backing.get(state, "")

    class Local(pool.SourcedStateBackend):
        transport = SimTransfer

        @classmethod
        def _show(cls, params, object=None):
            store = ("swarm", host_of[ctx["me"]])
            if params["object_type"] in ["images", "nets/vms/images"]:
                prefix, ext = f"{vm_id}/{params['images']}/", ".qcow2"
            else:
                prefix, ext = f"{vm_id}/", ".state"
            return sorted(k[1][len(prefix):-len(ext)] for k in fs
                          if k[0] == store and k[1].startswith(prefix) and k[1].endswith(ext) and "/" not in k[1][len(prefix):])

        @classmethod
        def _get(cls, params, object=None):
            log.append(("local_get", "cache", ""))

        @classmethod
        def _set(cls, params, object=None):
            log.append(("local_set", "cache", ""))

        @classmethod
        def _unset(cls, params, object=None):
            log.append(("local_unset", "cache", ""))

    def put_chain(store, images, state, with_memory, version, only=None):
        for rel in chain_files(vm_id, images, state, backing, with_memory):
            if only is None or only(rel):
                fs[(store, rel)] = f"{rel}@{version}"

    for item in plan_data.get("initial", []):
        store = (item["pool"][0], tuple(item["pool"][1]))
        put_chain(store, item["images"], item["state"], item["memory"], item["version"])

    violations, events, faults, probes = [], [], {}, {}

    def probe(name):
        probes[name] = probes.get(name, 0) + 1

    def canon_of(source, me):
        net, _, path = source.partition(":")
        host = host_of[net] if net else host_of[me]
        return ("swarm" if path == SWARM else "shared", host)

    for n, step in enumerate(plan_data["steps"], start=1):
        op = step["op"]
        if op in ("foreign_save", "lost_state"):
            store = (step["pool"][0], tuple(step["pool"][1]))
            if op == "foreign_save":
                part = step.get("part", "all")
                only = {"all": None, "memory": lambda rel: rel.endswith(".state"),
                        "top": lambda rel: rel.endswith(f"/{step['state']}.qcow2"),
                        "backing": lambda rel: rel.endswith(".qcow2") and not rel.endswith(f"/{step['state']}.qcow2")}[part]
                # a partial new version only makes sense where the chain exists already
                exists = all((store, rel) in fs for rel in chain_files(vm_id, step["images"], step["state"], backing, step["memory"]))
                put_chain(store, step["images"], step["state"], step["memory"], step["version"], only if exists else None)
                faults["foreign-save"] = faults.get("foreign-save", 0) + 1
            else:
                for rel in top_files(vm_id, step["images"], step["state"], step["memory"]):
                    if fs.pop((store, rel), None) is not None:
                        faults["lost-state"] = faults.get("lost-state", 0) + 1
            events.append([n, op, step["pool"], step["state"], step.get("part"), step.get("version")])
            continue
        me, scopes, sources, state = step["worker"], step["scope"].split(), step["sources"], step["state"]
        images, memory = step["images"], step["memory"]
        ctx.update(me=me, crash_at=step.get("crash_at"), downloads=0)
        params = {"pool_scope": step["scope"], "swarm_pool": SWARM, "shared_pool": SHARED, f"{op}_state": state,
                  "nets_gateway": deployment[me]["gateway"], "nets_host": deployment[me]["host"],
                  "object_type": "nets/vms" if memory else "nets/vms/images", "vms": "vm1", "images": " ".join(images),
                  "object_id": vm_id, f"{op}_location": " ".join(sources)}
        for w, d in deployment.items():
            params[f"nets_gateway_{w}"] = d["gateway"]
            params[f"nets_host_{w}"] = d["host"]
        del log[:]
        before = dict(fs)
        cache = ("swarm", host_of[me])
        files = chain_files(vm_id, images, state, backing, memory)
        enabled = [s for s in sources if scope_class(me, s, deployment) in scopes and scope_class(me, s, deployment) != "own"]
        outcome = "ok"
        try:
            getattr(Local, op)(Params(params), None)
        except Injected:
            outcome = "crashed"
            faults["crash-during-download"] = faults.get("crash-during-download", 0) + 1
        except RuntimeError:
            outcome = "RuntimeError"
        except FileNotFoundError:
            outcome = "FileNotFoundError"
        except Exception as error:
            outcome = "raised:" + type(error).__name__
            violations.append(V("unexpected-error", f"{op} raised {type(error).__name__}", step=n, error=str(error)[:200]))
        remote = [e for e in log if e[1] != "cache"]
        events.append([n, op, me, step["scope"], sources, state, images, memory, outcome, [list(e) for e in remote][:40]])
        contacted = {e[1] for e in remote}
        for loc in contacted:
            if loc not in enabled:
                violations.append(V("disabled-source-contacted", f"{op} touched files of a source whose scope is not enabled",
                                    step=n, scope=step["scope"], source=loc))
        # nothing but the cache (get) or the enabled mirrors (set/unset) changes
        for key in set(before) | set(fs):
            if before.get(key) == fs.get(key):
                continue
            if op == "get" and key[0] == cache and key[1] in files:
                continue
            if op in ("set", "unset") and any(canon_of(s, me) == key[0] for s in enabled):
                continue
            violations.append(V("stray-file-change", f"{op} changed a file it does not concern", step=n, store=str(key[0]), file=key[1]))
        if op == "get" and enabled and outcome in ("ok", "crashed"):
            best = min(ORDER[scope_class(me, s, deployment)] for s in enabled)
            closest = [s for s in enabled if ORDER[scope_class(me, s, deployment)] == best]
            used = sorted({e[1] for e in remote})
            if len(used) != 1 or used[0] not in closest:
                violations.append(V("not-closest-source", "fetching did not use the closest permitted source",
                                    step=n, closest=closest, used=used, scope=step["scope"]))
                continue
            src = canon_of(used[0], me)
            listed = (src, top_files(vm_id, images, state, memory)[-1]) in before
            complete = all((src, rel) in before for rel in files)
            identical = all(before.get((cache, rel)) == before.get((src, rel)) for rel in files)
            copies = [e for e in remote if e[0] in ("download", "download-torn")]
            calls = [e for e in remote if e[0].startswith("download")]
            if listed and complete and outcome == "ok":
                stale = [rel for rel in files if fs.get((cache, rel)) != before.get((src, rel))]
                if stale:
                    violations.append(V("stale-copy-kept", "after fetching a state the local copy still differs from the source",
                                        step=n, files=stale[:4], memory=memory, nimages=len(images)))
                if identical and calls:
                    violations.append(V("identical-copy-downloaded", "a local copy identical to the source was downloaded again",
                                        step=n, calls=len(calls)))
                if identical:
                    probe("identical-copy-kept")
                elif all(before.get((cache, rel)) is None for rel in files):
                    probe("downloaded-missing")
                else:
                    probe("downloaded-differing")
                    if any((before.get((cache, rel)) or "").startswith("torn:") for rel in files):
                        probe("repaired-torn-copy")
            if not listed and copies:
                violations.append(V("download-of-absent-state", "files were downloaded for a state the source does not list", step=n))
        elif op == "set" and outcome == "ok":
            have = all((cache, rel) in before for rel in files)
            for s in enabled:
                mirror = canon_of(s, me)
                if mirror == cache:
                    continue
                wrong = [rel for rel in files if fs.get((mirror, rel)) != before.get((cache, rel))]
                if have and wrong:
                    violations.append(V("mirror-differs-after-save", "after saving a state a permitted mirror does not hold the local files",
                                        step=n, mirror=s, files=wrong[:4]))
            if have and enabled:
                probe("saved-to-mirrors")
        elif op == "unset" and outcome == "ok":
            tops = top_files(vm_id, images, state, memory)
            for s in enabled:
                mirror = canon_of(s, me)
                if mirror == cache:
                    continue
                left = [rel for rel in tops if (mirror, rel) in fs]
                if left:
                    violations.append(V("mirror-keeps-removed-state", "after removing a state a permitted mirror still holds its files",
                                        step=n, mirror=s, files=left))
                gone = [rel for rel in files if rel not in tops and (mirror, rel) in before and (mirror, rel) not in fs]
                if gone:
                    violations.append(V("backing-removed", "removing a state also removed files of its backing states", step=n, files=gone))
            if enabled:
                probe("removed-from-mirrors")
    seen, out = set(), []
    for v in violations:
        k = (v["oracle"], v["signature"])
        if k not in seen:
            seen.add(k)
            out.append(v)
    final = repr(sorted((str(k[0]), k[1], v) for k, v in fs.items()))
    return {"violations": out, "events": events, "faults": faults, "probes": probes, "assignment": final,
            "nontrivial": any(len(e) > 9 and e[9] for e in events)}
