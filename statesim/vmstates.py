"""C17: a vm state exists exactly when all of the vm's images (and the memory file) have it.

Real code: ``QCOW2VTBackend.show``, ``QCOW2Backend.show`` (both regular expressions),
``RamfileBackend._show`` on top of ``QCOW2ExtBackend.show/_show``.  Fakes: ``QemuImg`` (prints
``qemu-img snapshot -l`` listings from the simulated disk), a scratch directory for the external
state files.  A history is a sequence of per-image and per-vm operations; the vm-level ones are
multi-step and may crash between their per-image steps, and transfers may lose a file, so every
assignment of state-name sets to images and memory files is reachable.
"""
import os

from sim.plan import Plan

NAMES = ["install", "customize", "s.1", "a-b", "boot10", "x0", "on_customize"]
# what qemu-img prints (%0.3g, next unit from 1000 on): whole, fractional, below one, exponent forms
ON_SIZES = ["1 GiB", "1.16 GiB", "512 MiB", "4 KiB", "100 B", "10 B", "20 MiB", "0.986 GiB", "0.977 MiB", "1e+03 MiB",
            "999 KiB"]


class Disk:
    def __init__(self, root, vm_id, images):
        self.root = root
        self.vm_id = vm_id
        self.images = images
        #: internal snapshots per image: list of [name, size string]
        self.internal = {image: [] for image in images}
        self.vm_dir = os.path.join(root, "swarm", vm_id)
        os.makedirs(self.vm_dir, exist_ok=True)

    # external files
    def ext_path(self, image, state):
        return os.path.join(self.vm_dir, image, state + ".qcow2")

    def mem_path(self, state):
        return os.path.join(self.vm_dir, state + ".state")

    def touch(self, path):
        os.makedirs(os.path.dirname(path), exist_ok=True)
        with open(path, "wb") as handle:
            handle.write(b"x")

    def remove(self, path):
        if os.path.exists(path):
            os.unlink(path)

    def listing(self, image):
        lines = ["Snapshot list:", "ID        TAG               VM SIZE                DATE     VM CLOCK     ICOUNT"]
        for i, (name, size) in enumerate(self.internal[image]):
            lines.append(f"{i + 1:<10}{name:<18}{size:>7} 2024-01-0{i % 9 + 1} 10:00:00   00:00:0{i % 10}.000")
        return "\n".join(lines) + "\n"


def make_fake_qemu_img(disk_ref):
    class FakeQemuImg:
        def __init__(self, params, root_dir, tag):
            # like the real class, the image file follows from the parameters (image_name), not from the tag
            from virttest import storage
            self.tag = tag
            self.image_filename = storage.get_image_filename(params, root_dir)
            self.image = os.path.basename(self.image_filename).split(".")[0][len("img-"):]

        def snapshot_list(self, force_share=False):
            return disk_ref["disk"].listing(self.image)
    return FakeQemuImg


def run_plan(plan_data, root):
    from virttest.utils_params import Params
    from avocado_i2n.states import qcow2, ramfile
    plan = Plan(plan_data)
    kind = plan_data["backend"]          # "internal" (qcow2vt) or "external" (ramfile + qcow2ext)
    images = plan_data["images"]
    vm_id = "vm1-variant.abc"
    disk = Disk(root, vm_id, images)
    ref = {"disk": disk}
    qcow2.QemuImg = make_fake_qemu_img(ref)
    ramfile.RamfileBackend.image_state_backend = qcow2.QCOW2ExtBackend
    params = Params({
        "vms": "vm1", "images": " ".join(images), "object_id": vm_id, "swarm_pool": os.path.join(root, "swarm"),
        "images_base_dir": os.path.join(root, "images"), "vms_base_dir": os.path.join(root, "images"),
        "pool_scope": "own", "object_type": "nets/vms", "nets_gateway": "", "nets_host": "",
        "shared_pool": os.path.join(root, "shared"), "image_format": "qcow2",
        # the first image is named by the generic key, further ones by their own (as multi-image configurations do)
        "image_name": "img-" + images[0], **{f"image_name_{image}": "img-" + image for image in images[1:]},
    })
    violations = []
    events = []
    # model: per image the set of names present (internal: name -> size; external: files), memory files
    model_int = {image: {} for image in images}
    model_ext = {image: set() for image in images}
    model_mem = set()
    faults = {}

    def fault(name):
        faults[name] = faults.get(name, 0) + 1

    def image_steps(op, state, size):
        """The per-image (and memory file) steps of a vm-level operation, in the order the code performs them."""
        steps = []
        if kind == "external" and op == "set":
            steps.append(("mem", None))
        for image in images:
            steps.append(("img", image))
        if kind == "external" and op == "unset":
            steps.append(("mem", None))
        return steps

    def apply_img(op, image, state, size):
        if kind == "internal":
            if op == "set":
                if state not in model_int[image]:
                    disk.internal[image].append([state, size])
                    model_int[image][state] = size
            else:
                disk.internal[image] = [e for e in disk.internal[image] if e[0] != state]
                model_int[image].pop(state, None)
        else:
            if op == "set":
                disk.touch(disk.ext_path(image, state))
                model_ext[image].add(state)
            else:
                disk.remove(disk.ext_path(image, state))
                model_ext[image].discard(state)

    def apply_mem(op, state):
        if op == "set":
            disk.touch(disk.mem_path(state))
            model_mem.add(state)
        else:
            disk.remove(disk.mem_path(state))
            model_mem.discard(state)

    def check(step_no, what):
        # expected vm-level listing
        if kind == "internal":
            per_image = [{n for n, size in model_int[image].items() if size != "0 B"} for image in images]
            want = set.intersection(*per_image) if per_image else set()
            want_off = {image: {n for n, size in model_int[image].items() if size == "0 B"} for image in images}
        else:
            per_image = [set(model_ext[image]) for image in images]
            want = set(model_mem).intersection(*per_image) if per_image else set(model_mem)
        try:
            if kind == "internal":
                got = set(qcow2.QCOW2VTBackend.show(params.copy(), None))
            else:
                got = set(ramfile.RamfileBackend._show(params.copy(), None))
        except Exception as error:  # the listing itself fails
            violations.append({"property": "C17", "oracle": "listing-raised",
                               "signature": f"listing the vm states raised {type(error).__name__} ({len(images)} images, {kind})",
                               "detail": {"step": step_no, "after": what, "error": str(error)[:200]}})
            events.append([step_no, what, "raised " + type(error).__name__])
            return
        events.append([step_no, what, sorted(got)])
        if got != want:
            missing, extra = sorted(want - got), sorted(got - want)
            sig = "a vm state is listed although not all images/memory carry it" if extra else \
                "a vm state carried by all images and memory is not listed"
            violations.append({"property": "C17", "oracle": "wrong-listing",
                               "signature": f"{sig} ({len(images)} images, {kind})",
                               "detail": {"step": step_no, "after": what, "missing": missing, "extra": extra,
                                          "model": {i: sorted(s) for i, s in zip(images, per_image)},
                                          "memory": sorted(model_mem)}})
        if kind == "internal":
            for image in images:
                p = params.object_params(image)
                p["images"] = image
                off = set(qcow2.QCOW2Backend.show(p, None))
                if off != want_off[image]:
                    violations.append({"property": "C17", "oracle": "on-off-confused",
                                       "signature": "stopped-image and running-vm snapshots are not told apart by their vm-state size",
                                       "detail": {"step": step_no, "image": image, "got": sorted(off),
                                                  "want": sorted(want_off[image]),
                                                  "listing": disk.listing(image)}})

    check(0, "init")
    for n, step in enumerate(plan_data["steps"], start=1):
        op, state = step["op"], step.get("state")
        size = step.get("size", "1 GiB")
        what = f"{op} {state}"
        if op in ("vm_set", "vm_unset"):
            sub = image_steps(op[3:], state, size)
            crash_after = step.get("crash_after")
            for j, (target, image) in enumerate(sub):
                if crash_after is not None and j >= crash_after:
                    fault("crash-between-image-steps")
                    what += f" (crash after {j} of {len(sub)} steps)"
                    break
                if target == "mem":
                    apply_mem(op[3:], state)
                else:
                    apply_img(op[3:], image, state, size)
        elif op in ("img_set", "img_unset"):
            apply_img(op[4:], step["image"], state, size)
            what += f" on {step['image']}"
        elif op in ("mem_set", "mem_unset"):
            apply_mem(op[4:], state)
        elif op == "lost_write":
            # a transfer that lost one file: remove one stored item
            image = step["image"]
            if kind == "external" and state in model_ext[image]:
                disk.remove(disk.ext_path(image, state))
                model_ext[image].discard(state)
                fault("lost-write")
            elif kind == "internal" and state in model_int[image]:
                disk.internal[image] = [e for e in disk.internal[image] if e[0] != state]
                model_int[image].pop(state)
                fault("lost-write")
            what += f" on {step['image']}"
        check(n, what)
    seen, out = set(), []
    for v in violations:
        key = (v["oracle"], v["signature"])
        if key not in seen:
            seen.add(key)
            out.append(v)
    assignment = tuple(sorted((i, tuple(sorted(model_int[i].items())) if kind == "internal" else tuple(sorted(model_ext[i])))
                              for i in images)) + (tuple(sorted(model_mem)),)
    return {"violations": out, "events": events, "faults": faults, "assignment": repr(assignment)}
