"""C13: pool access respects the enabled scopes and prefers the closest source.

Real code: ``pool.SourcedStateBackend.show/get/set/unset/get_sources/get_source_scope`` and
``RootSourcedStateBackend.check_root/set_root/unset_root``.  Stubs: the local backend
(``_show/_get/_set/_unset/_check_root/...`` over an in-memory cache per simulated worker) and
the ``transport`` (a recording fake over the simulated pools).  The deployment is a cluster of
workers on gateways and hosts, a shared pool and one swarm pool per worker; the placement of
each state evolves with the history (other workers' sets/unsets, lost writes, invalid caches).
"""
from sim.plan import Plan

SHARED = "/mnt/shared"
SWARM = "/mnt/swarm"
ORDER = {"own": 0, "shared": 1, "swarm": 2, "cluster": 3}


def V(oracle, signature, **detail):
    return {"property": "C13", "oracle": oracle, "signature": signature, "detail": detail}


def scope_class(me, source, deployment):
    """Documented proximity class of a source as seen from worker ``me`` (independent of the code)."""
    net, _, path = source.partition(":")
    if not net:
        return "own" if path == SWARM else "shared"
    if deployment[net]["gateway"] != deployment[me]["gateway"]:
        return "cluster"
    if deployment[net]["host"] != deployment[me]["host"]:
        return "swarm"
    if path == SHARED:
        return "shared"
    return "own" if path == SWARM else "shared"


def store_of(source, me):
    net, _, path = source.partition(":")
    if not net:
        return ("shared",) if path != SWARM else ("swarm", me)
    # a worker on the same host reaches the very same directories
    return ("shared-of", net) if path == SHARED else ("swarm", net)


def run_plan(plan_data, root):
    from virttest.utils_params import Params
    from avocado_i2n.states import pool
    plan = Plan(plan_data)
    deployment = plan_data["workers"]
    # pools: ("shared",) and ("swarm", worker); workers on one host share the host's directories
    host_of = {w: (d["gateway"], d["host"]) for w, d in deployment.items()}

    def canon(store, me=None):
        if store[0] == "shared-of":
            return ("shared", host_of[store[1]])
        if store[0] == "shared":
            return ("shared", host_of[me])
        return ("swarm", host_of[store[1]])

    pools = {}
    for item in plan_data.get("initial", []):
        pools.setdefault(tuple(map(lambda x: tuple(x) if isinstance(x, list) else x, item["pool"])), set()).add(item["state"])
    contacts = []
    ctx = {}

    class FakeTransport:
        @classmethod
        def show(cls, params, object=None):
            loc = params["show_location"]
            contacts.append(("show", loc))
            return sorted(pools.get(canon(store_of(loc, ctx["me"]), ctx["me"]), set()))

        @classmethod
        def get(cls, params, object=None):
            loc = params["get_location"]
            contacts.append(("download", loc))
            src = pools.get(canon(store_of(loc, ctx["me"]), ctx["me"]), set())
            if params["get_state"] in src:
                pools.setdefault(("swarm", host_of[ctx["me"]]), set()).add(params["get_state"])
                ctx["invalid"].discard(params["get_state"])

        @classmethod
        def set(cls, params, object=None):
            loc = params["set_location"]
            contacts.append(("upload", loc))
            pools.setdefault(canon(store_of(loc, ctx["me"]), ctx["me"]), set()).add(params["set_state"])

        @classmethod
        def unset(cls, params, object=None):
            loc = params["unset_location"]
            contacts.append(("delete", loc))
            pools.setdefault(canon(store_of(loc, ctx["me"]), ctx["me"]), set()).discard(params["unset_state"])

        @classmethod
        def compare_chain(cls, state, cache_dir, pool_dir, params):
            contacts.append(("compare", pool_dir))
            return state not in ctx["invalid"]

        @classmethod
        def check_root(cls, params, object=None):
            contacts.append(("check_root", ":" + params["shared_pool"]))
            return "root" in pools.get(("shared", host_of[ctx["me"]]), set())

        @classmethod
        def get_root(cls, params, object=None):
            contacts.append(("download_root", ":" + params["shared_pool"]))
            if "root" in pools.get(("shared", host_of[ctx["me"]]), set()):
                pools.setdefault(("swarm", host_of[ctx["me"]]), set()).add("root")

        class ops:
            @staticmethod
            def compare(cache_path, pool_path, params):
                contacts.append(("compare_root", pool_path))
                return "root" not in ctx["invalid"]

        @classmethod
        def set_root(cls, params, object=None):
            contacts.append(("upload_root", ":" + params["shared_pool"]))
            pools.setdefault(("shared", host_of[ctx["me"]]), set()).add("root")

        @classmethod
        def unset_root(cls, params, object=None):
            contacts.append(("delete_root", ":" + params["shared_pool"]))
            pools.setdefault(("shared", host_of[ctx["me"]]), set()).discard("root")

    class Local(pool.SourcedStateBackend):
        transport = FakeTransport

        @classmethod
        def _show(cls, params, object=None):
            contacts.append(("local_show", "own"))
            return sorted(s for s in pools.get(("swarm", host_of[ctx["me"]]), set()) if s != "root")

        @classmethod
        def _get(cls, params, object=None):
            contacts.append(("local_get", "own"))

        @classmethod
        def _set(cls, params, object=None):
            contacts.append(("local_set", "own"))
            pools.setdefault(("swarm", host_of[ctx["me"]]), set()).add(params["set_state"])

        @classmethod
        def _unset(cls, params, object=None):
            contacts.append(("local_unset", "own"))
            pools.setdefault(("swarm", host_of[ctx["me"]]), set()).discard(params["unset_state"])

    class LocalRoot(pool.RootSourcedStateBackend):
        transport = FakeTransport

        @classmethod
        def _check_root(cls, params, object=None):
            contacts.append(("local_check_root", "own"))
            return "root" in pools.get(("swarm", host_of[ctx["me"]]), set())

        @classmethod
        def _get_root(cls, params, object=None):
            contacts.append(("local_get_root", "own"))

        @classmethod
        def _set_root(cls, params, object=None):
            contacts.append(("local_set_root", "own"))
            pools.setdefault(("swarm", host_of[ctx["me"]]), set()).add("root")

        @classmethod
        def _unset_root(cls, params, object=None):
            contacts.append(("local_unset_root", "own"))
            pools.setdefault(("swarm", host_of[ctx["me"]]), set()).discard("root")

    violations, events, faults, probes = [], [], {}, {}

    def probe(name):
        probes[name] = probes.get(name, 0) + 1

    for n, step in enumerate(plan_data["steps"], start=1):
        op, me = step["op"], step.get("worker")
        if op in ("lost_write", "foreign_set", "foreign_unset"):
            target = tuple(step["pool"]) if step["pool"][0] == "shared" else ("swarm", tuple(step["pool"][1]))
            target = (target[0], tuple(target[1]))
            if op == "foreign_set":
                pools.setdefault(target, set()).add(step["state"])
            else:
                if step["state"] in pools.get(target, set()):
                    pools[target].discard(step["state"])
                    faults["lost-write" if op == "lost_write" else "foreign-unset"] = faults.get(op, 0) + 1
            events.append([n, op, step["pool"], step["state"]])
            continue
        scopes = step["scope"].split()
        sources = step["sources"]
        state = step["state"]
        ctx["me"] = me
        ctx["invalid"] = set(step.get("invalid", []))
        if ctx["invalid"]:
            faults["invalid-cache"] = faults.get("invalid-cache", 0) + 1
        params = {"pool_scope": step["scope"], "swarm_pool": SWARM, "shared_pool": SHARED, f"{op}_state": state,
                  "nets_gateway": deployment[me]["gateway"], "nets_host": deployment[me]["host"],
                  "object_type": "nets/vms/images", "vms": "vm1", "images": "image1", "object_id": "vm1-x"}
        loc_key = "show_location" if op == "show" else f"{op}_location"
        if op in ("show", "get", "set", "unset"):
            params[loc_key] = " ".join(sources)
        for w, d in deployment.items():
            params[f"nets_gateway_{w}"] = d["gateway"]
            params[f"nets_host_{w}"] = d["host"]
        del contacts[:]
        own_pool = ("swarm", host_of[me])
        before = {k: set(v) for k, v in pools.items()}
        local_before = set(before.get(own_pool, set()))
        enabled = [s for s in sources if scope_class(me, s, deployment) in scopes and scope_class(me, s, deployment) != "own"]
        outcome, result = "ok", None
        try:
            if op == "show":
                result = sorted(Local.show(Params(params), None))
            elif op == "get":
                Local.get(Params(params), None)
            elif op == "set":
                Local.set(Params(params), None)
            elif op == "unset":
                Local.unset(Params(params), None)
            elif op == "set_root":
                LocalRoot.set_root(Params(params), None)
            elif op == "unset_root":
                LocalRoot.unset_root(Params(params), None)
            elif op == "check_root":
                result = LocalRoot.check_root(Params(params), None)
            elif op == "get_root":
                params.update({"image_name": "image", "vms_base_dir": "/images", "images_base_dir": "/images"})
                LocalRoot.get_root(Params(params), None)
        except RuntimeError as error:
            outcome = "RuntimeError"
        except Exception as error:
            outcome = "raised:" + type(error).__name__
            violations.append(V("unexpected-error", f"{op} raised {type(error).__name__}", step=n, error=str(error)[:200]))
        remote = [(k, loc) for (k, loc) in contacts if not k.startswith("local_")]
        events.append([n, op, me, step["scope"], sources, state, outcome, remote, result])
        touched = {loc for (_, loc) in remote}
        label = f"{op} with scope [{step['scope']}]"
        # only sources whose scope is enabled are contacted
        for loc in touched:
            if op in ("show", "get", "set", "unset") and loc not in enabled:
                violations.append(V("disabled-source-contacted",
                                    f"{op} contacted a source whose scope ({scope_class(me, loc, deployment)}) is not enabled",
                                    step=n, scope=step["scope"], source=loc))
        if any(k.startswith("local_") for (k, _) in contacts) and "own" not in scopes and op in ("get", "unset"):
            if any(k in ("local_get", "local_unset") for (k, _) in contacts):
                violations.append(V("own-disabled-but-used", f"{op} changed the local cache although the own scope is disabled",
                                    step=n, scope=step["scope"]))
        if op == "show" and outcome == "ok":
            permitted = set(local_before - {"root"}) if "own" in scopes else set()
            for s in enabled:
                permitted |= before.get(canon(store_of(s, me), me), set())
            extra = set(result) - permitted
            if extra:
                violations.append(V("phantom-state", "a state is reported present although neither the cache nor a permitted source holds it",
                                    step=n, extra=sorted(extra), scope=step["scope"]))
            if "own" in scopes and not (local_before - {"root"}) <= set(result):
                violations.append(V("cache-state-hidden", "a state of the local cache is not reported although the own scope is enabled",
                                    step=n, scope=step["scope"]))
            if set(enabled) != {loc for (k, loc) in remote if k == "show"}:
                violations.append(V("listing-sources", "listing did not consult exactly the enabled sources",
                                    step=n, enabled=enabled, contacted=sorted(touched)))
            probe("show")
        elif op == "get" and outcome == "ok":
            if enabled:
                best = min(ORDER[scope_class(me, s, deployment)] for s in enabled)
                closest = [s for s in enabled if ORDER[scope_class(me, s, deployment)] == best]
                used = [loc for (k, loc) in remote if k == "show"]
                if len(set(used)) != 1 or used[0] not in closest:
                    violations.append(V("not-closest-source", "fetching did not use the closest permitted source",
                                        step=n, closest=closest, used=used, scope=step["scope"]))
                else:
                    src = used[0]
                    src_has = state in before.get(canon(store_of(src, me), me), set())
                    local_has = state in local_before
                    was_invalid = state in step.get("invalid", [])
                    should_download = src_has and (not local_has or was_invalid)
                    did = any(k == "download" for (k, _) in remote)
                    if did != should_download:
                        violations.append(V("download-decision",
                                            "a state was downloaded although the local copy matches the source" if did else
                                            "a state was not downloaded although the local copy is missing or differs",
                                            step=n, src_has=src_has, local_has=local_has, invalid=was_invalid))
                    if did:
                        probe("download")
                    if src_has and local_has and not did:
                        probe("download-skipped-valid-cache")
            elif remote:
                violations.append(V("disabled-source-contacted", "get contacted a source although none is enabled", step=n))
            if ("own" in scopes) != any(k == "local_get" for (k, _) in contacts):
                violations.append(V("local-get", "the local retrieval does not follow the own scope", step=n, scope=step["scope"]))
        elif op == "set":
            local_has = state in local_before
            if "own" not in scopes and not local_has:
                if outcome != "RuntimeError":
                    violations.append(V("pool-update-without-local-state", "a pool update without the local state was not refused",
                                        step=n, scope=step["scope"]))
                probe("refused-update")
            elif outcome == "ok":
                uploaded = [loc for (k, loc) in remote if k == "upload"]
                if sorted(uploaded) != sorted(enabled):
                    violations.append(V("mirrors-missed", "saving did not reach exactly the permitted mirrors",
                                        step=n, enabled=enabled, uploaded=uploaded, scope=step["scope"]))
                if ("own" in scopes) != any(k == "local_set" for (k, _) in contacts):
                    violations.append(V("local-set", "the local save does not follow the own scope", step=n, scope=step["scope"]))
            else:
                violations.append(V("unexpected-error", "set raised although the update was legitimate", step=n, outcome=outcome))
        elif op == "unset" and outcome == "ok":
            deleted = [loc for (k, loc) in remote if k == "delete"]
            if sorted(deleted) != sorted(enabled):
                violations.append(V("mirrors-missed", "removing did not reach exactly the permitted mirrors",
                                    step=n, enabled=enabled, deleted=deleted, scope=step["scope"]))
            if ("own" in scopes) != any(k == "local_unset" for (k, _) in contacts):
                violations.append(V("local-unset", "the local removal does not follow the own scope", step=n, scope=step["scope"]))
        elif op == "set_root":
            if step["scope"] == "own":
                ok = outcome == "ok" and not remote
            elif step["scope"] == "shared":
                ok = (outcome == "ok" and any(k == "upload_root" for k, _ in remote)) if "root" in local_before else outcome == "RuntimeError"
                if "root" not in local_before:
                    probe("refused-root-update")
            else:
                ok = outcome == "RuntimeError"
            if not ok:
                violations.append(V("root-update", "setting a root state did not follow the pool scope rules",
                                    step=n, scope=step["scope"], outcome=outcome, remote=remote, local_root="root" in local_before))
        elif op == "unset_root":
            if step["scope"] == "own":
                ok = outcome == "ok" and not remote
            elif step["scope"] == "shared":
                ok = outcome == "ok" and any(k == "delete_root" for k, _ in remote) and not any(k == "local_unset_root" for k, _ in contacts)
            else:
                ok = outcome == "RuntimeError"
            if not ok:
                violations.append(V("root-update", "removing a root state did not follow the pool scope rules",
                                    step=n, scope=step["scope"], outcome=outcome, remote=remote))
        elif op == "get_root":
            sc = step["scope"].split()
            downloads = [k for k, _ in remote if k == "download_root"]
            local_get = any(k == "local_get_root" for k, _ in contacts)
            shared_has = "root" in before.get(("shared", host_of[me]), set())
            local_has = "root" in local_before
            if "own" not in sc:
                ok = outcome == "ok" and len(downloads) == 1 and not local_get
            elif step["scope"] == "own":
                ok = outcome == "ok" and not remote and local_get
            else:
                want_download = shared_has and (not local_has or "root" in step.get("invalid", []))
                ok = outcome == "ok" and (len(downloads) == 1) == want_download and local_get
                if want_download:
                    probe("root-download")
            if not ok:
                violations.append(V("root-fetch", "getting a root state did not follow the pool scope / cache validity rules",
                                    step=n, scope=step["scope"], outcome=outcome, remote=remote, local_root=local_has,
                                    pool_root=shared_has, invalid="root" in step.get("invalid", [])))
        elif op == "check_root" and outcome == "ok":
            if step["scope"] == "own" and remote:
                violations.append(V("disabled-source-contacted", "check_root contacted the pool with only the own scope enabled", step=n))
    seen, out = set(), []
    for v in violations:
        k = (v["oracle"], v["signature"])
        if k not in seen:
            seen.add(k)
            out.append(v)
    final = repr(sorted((str(k), tuple(sorted(v))) for k, v in pools.items() if v))
    return {"violations": out, "events": events, "faults": faults, "probes": probes, "assignment": final,
            "nontrivial": any(len(e) > 7 and e[7] for e in events)}
