"""C12: state operations follow the documented policy table and a plain store model.

Real code: ``avocado_i2n.states.setup`` (check/get/set/unset/push/pop and the object
iteration).  An in-memory backend is registered in ``ss.BACKENDS`` for nets, vms and images;
it logs every call.  The reference model is the README's policy table written down as data
plus a set of names per object.
"""
import copy

from sim.plan import Plan

ROOTS = ["root", "0root", "boot", "0boot"]

# README table: action per operation x (state present?) x letter
POLICY = {
    "get": {True: {"a": "abort", "r": "reuse", "i": "ignore"}, False: {"a": "abort", "i": "ignore"}},
    "set": {True: {"a": "abort", "r": "reuse", "f": "force"}, False: {"a": "abort", "f": "force"}},
    "unset": {True: {"r": "reuse", "f": "force"}, False: {"a": "abort", "i": "ignore"}},
}
DEFAULT_MODE = {"get": "ra", "set": "ff", "unset": "fi", "push": "af", "pop_get": "ra", "pop_unset": "fa"}


class Injected(OSError):
    pass


def make_backend(log, store, fault):
    from avocado_i2n.states.setup import StateBackend

    def ident(params):
        typ = params["object_type"].split("/")[-1]
        if typ == "nets":
            return ("nets", params.get("nets", ""))
        if typ == "vms":
            return ("vms", params["vms"])
        return ("images", params["vms"], params["images"])

    def entry(params):
        return store.setdefault(ident(params), {"root": False, "states": set()})

    def call(name, params):
        log.append((name, ident(params)))
        if fault.get("at") is not None:
            fault["count"] = fault.get("count", 0) + 1
            if fault["count"] - 1 == fault["at"]:
                fault["fired"] = (name, ident(params))
                raise Injected(5, "injected backend error")

    class MemBackend(StateBackend):
        @classmethod
        def show(cls, params, object=None):
            call("show", params)
            return sorted(entry(params)["states"])

        @classmethod
        def get(cls, params, object=None):
            call("get", params)

        @classmethod
        def set(cls, params, object=None):
            call("set", params)
            entry(params)["states"].add(params["set_state"])

        @classmethod
        def unset(cls, params, object=None):
            call("unset", params)
            entry(params)["states"].discard(params["unset_state"])

        @classmethod
        def check_root(cls, params, object=None):
            call("check_root", params)
            return entry(params)["root"]

        @classmethod
        def get_root(cls, params, object=None):
            call("get_root", params)

        @classmethod
        def set_root(cls, params, object=None):
            call("set_root", params)
            entry(params)["root"] = True

        @classmethod
        def unset_root(cls, params, object=None):
            call("unset_root", params)
            entry(params)["root"] = False

    return MemBackend, ident


class FakeVM:
    def __init__(self, name):
        self.name = name

    def is_alive(self):
        return False

    def destroy(self, gracefully=True):
        pass


class FakeEnv:
    def get_vm(self, name):
        return FakeVM(name)


def objects_in_order(params):
    """Post-order object iteration of the states chain with typed parameters (own resolution)."""
    from virttest.utils_params import Params
    chain = params.get("states_chain", "").split()
    out = []

    def walk(p, level, names):
        typ = chain[level]
        for name in p.get(typ, "").split():
            op = p.object_params(name)
            op[typ] = name
            here = names + [(name, typ)]
            if level + 1 < len(chain):
                walk(op, level + 1, here)
            typed = op.object_params(typ)
            out.append({"names": [n for n, _ in here], "type": "/".join(t for _, t in here), "params": typed})

    if chain:
        walk(Params(params), 0, [])
    return out


def key_of(obj):
    typ = obj["type"].split("/")[-1]
    p = obj["params"]
    if typ == "nets":
        return ("nets", p.get("nets", ""))
    if typ == "vms":
        return ("vms", p["vms"])
    return ("images", p["vms"], p["images"])


class Outcome(Exception):
    def __init__(self, kind):
        self.kind = kind


def model_check(model, obj, state, check_mode, touched):
    """Root prerequisite + presence, as the experimental check policy is coded (DESIGN 4.1)."""
    e = model.setdefault(key_of(obj), {"root": False, "states": set()})
    touched.add(key_of(obj))
    if not e["root"]:
        if check_mode[1] == "f":
            e["root"] = True
        elif check_mode[1] == "r":
            return False
        else:
            raise Outcome("invalid")
    elif check_mode[0] == "f":
        e["root"] = True
    if state in ROOTS:
        return e["root"]
    return state in e["states"]


def model_apply(model, op, params, touched):
    """Apply one operation to the model; returns 'ok' | 'abort' | 'invalid'."""
    try:
        for obj in objects_in_order(params):
            p = obj["params"]
            if op != "check" and op not in ("push", "pop") and obj["type"] in p.get("skip_types", "").split():
                continue
            if op == "check" and obj["type"] in p.get("skip_types", "").split():
                continue
            if op in ("check", "get", "set", "unset") and obj["type"].endswith("images") and obj["type"] != "images" \
                    and p.get("image_readonly", "no") == "yes" and obj["type"] == "nets/vms/images":
                continue
            if op == "check":
                state = p.get("check_state")
                if not state:
                    continue
                if not model_check(model, obj, state, p.get("check_mode", "rf"), touched):
                    return "false"
                continue
            if op in ("push", "pop"):
                state = p.get(f"{op}_state")
                if not state or state in ROOTS:
                    continue
                # the nested set/get/unset calls see the object re-rooted: its type is the last component
                if obj["type"].split("/")[-1] in p.get("skip_types", "").split():
                    continue
                if op == "push":
                    do_single(model, "set", obj, state, p.get("push_mode", "af"), p, touched)
                else:
                    do_single(model, "get", obj, state, p.get("pop_mode", "ra"), p, touched)
                    do_single(model, "unset", obj, state, p.get("pop_mode", "fa"), p, touched)
                continue
            state = p.get(f"{op}_state")
            if not state:
                continue
            do_single(model, op, obj, state, p.get(f"{op}_mode", DEFAULT_MODE[op]), p, touched)
    except Outcome as out:
        return out.kind
    return "ok"


def do_single(model, op, obj, state, mode, p, touched):
    # inner calls of push/pop re-root the object (its type becomes the last component) and skip_types
    # / readonly apply again there with the re-rooted type; with a re-rooted type nothing is skipped
    check_mode = p.get("check_mode", "rf")
    present = model_check(model, obj, state, check_mode, touched)
    e = model[key_of(obj)]
    letter = mode[0] if present else mode[1] if len(mode) > 1 else "?"
    action = POLICY[op][present].get(letter)
    if action is None:
        raise Outcome("invalid")
    if action == "abort":
        raise Outcome("abort")
    if action in ("ignore",):
        return
    if op == "get":
        return  # reuse: the state is retrieved, the set of names does not change
    if op == "set":
        if action == "reuse":
            return
        if state in ROOTS:
            e["root"] = True
            return
        if not present and not e["root"]:
            raise Outcome("invalid")
        e["states"].add(state)
        return
    if op == "unset":
        if action == "reuse":
            return
        if state in ROOTS:
            e["root"] = False
        else:
            e["states"].discard(state)


def snapshot(store):
    return {k: (v["root"], tuple(sorted(v["states"]))) for k, v in store.items() if v["root"] or v["states"]}


def run_plan(plan_data, root):
    from virttest.utils_params import Params
    from avocado.core import exceptions
    from avocado_i2n.states import setup as ss
    store, log, fault = {}, [], {}
    backend, ident = make_backend(log, store, fault)
    ss.BACKENDS = {"mem": backend}
    model = {}
    for key, val in plan_data.get("initial", []):
        key = tuple(key)
        store[key] = {"root": val["root"], "states": set(val["states"])}
        model[key] = {"root": val["root"], "states": set(val["states"])}
    env = FakeEnv()
    violations, events = [], []
    ops = {"check": ss.check_states, "get": ss.get_states, "set": ss.set_states, "unset": ss.unset_states,
           "push": ss.push_states, "pop": ss.pop_states}
    faults = {}
    probes = {}
    for n, step in enumerate(plan_data["steps"], start=1):
        op = step["op"]
        params = dict(plan_data["base"])
        params.update(step["params"])
        del log[:]
        fault.clear()
        if step.get("fault_at") is not None:
            fault["at"] = step["fault_at"]
        before = snapshot(store)
        model_before = copy.deepcopy(model)
        touched = set()
        want = model_apply(model, op, params, touched)
        got, detail = "ok", None
        try:
            result = ops[op](Params(params), env)
            if op == "check" and result is False:
                got = "false"
        except exceptions.TestAbortError as error:
            got, detail = "abort", str(error)[:120]
        except exceptions.TestError as error:
            got, detail = "invalid", str(error)[:120]
        except Injected:
            got = "injected"
        except Exception as error:  # anything else escaping the state code
            got, detail = "raised:" + type(error).__name__, str(error)[:160]
        after = snapshot(store)
        events.append([n, op, step["params"], got, want])
        probes[want] = probes.get(want, 0) + 1
        addressed = {key_of(o) for o in objects_in_order(params)
                     if (o["params"].get(f"{op}_state") and True)}
        label = f"{op} with modes {step.get('modes')}"
        if fault.get("fired"):
            faults["backend-error"] = faults.get("backend-error", 0) + 1
            # after an injected error: the step may fail; the failing object may be old or new, nothing else changes
            failing = fault["fired"][1]
            model_now = snapshot(model)
            for key in set(after) | set(before) | set(model_now):
                if key == failing:
                    # the root may be in any condition (a forced root is destroyed and re-created); the saved
                    # states must be the old or the new ones
                    names = lambda snap: (snap or (False, ()))[1]
                    allowed = [names(before.get(key)), names(model_now.get(key))]
                    if op in ("set", "push"):
                        # a forced overwrite is "remove, then save again": an error in between loses that one name
                        allowed += [tuple(n for n in names(before.get(key)) if n != st) for st in set(params.values())]
                    if names(after.get(key)) not in allowed:
                        if True:
                            violations.append(V("wrong-state-after-error", f"an object holds neither its old nor its new states after a backend error ({op})",
                                                step=n, key=key, before=before.get(key), after=after.get(key)))
                elif key not in touched and after.get(key) != before.get(key):
                    violations.append(V("interference-after-error", f"a backend error changed an object it did not concern ({op})",
                                        step=n, key=key))
            # resynchronise the model with what really happened
            model.clear()
            for key, val in store.items():
                model[key] = {"root": val["root"], "states": set(val["states"])}
            continue
        if got != want:
            violations.append(V("wrong-action", f"{op} ended {got} where the policy table says {want}",
                                step=n, params=step["params"], detail=detail, present={str(k): v for k, v in before.items()}))
            model.clear()
            for key, val in store.items():
                model[key] = {"root": val["root"], "states": set(val["states"])}
            continue
        if after != snapshot(model):
            if want in ("abort", "invalid"):
                # objects processed before the aborting one may already be changed (documentation is silent)
                pass
            diff = {str(k): (after.get(k), snapshot(model).get(k)) for k in set(after) | set(snapshot(model))
                    if after.get(k) != snapshot(model).get(k)}
            violations.append(V("wrong-store", f"the states left by {op} differ from the set-of-names model (outcome {want})",
                                step=n, params=step["params"], diff=diff))
            model.clear()
            for key, val in store.items():
                model[key] = {"root": val["root"], "states": set(val["states"])}
        # objects and types not addressed by the parameters receive no backend call at all
        called = {key for (_, key) in log}
        stray = called - touched
        if stray:
            violations.append(V("stray-call", f"{op} called the backend for an object its parameters do not address",
                                step=n, objects=sorted(map(str, stray)), params=step["params"]))
    seen, out = set(), []
    for v in violations:
        k = (v["oracle"], v["signature"])
        if k not in seen:
            seen.add(k)
            out.append(v)
    final = repr(sorted((str(k), v) for k, v in snapshot(store).items()))
    return {"violations": out, "events": events, "faults": faults, "probes": probes, "assignment": final,
            "nontrivial": any(e[3] != "ok" or e[1] in ("set", "unset", "push", "pop") for e in events)}


def V(oracle, signature, **detail):
    return {"property": "C12", "oracle": oracle, "signature": signature, "detail": detail}
