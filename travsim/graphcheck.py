"""Invariants over the live dependency graph (C06, C09, C16), evaluated inside simulated runs.

The checks run after an eager parse, after every lazy expansion step of a simulated traversal
(whose order is the schedule), and at the end of every epoch.  They read the graph through its
public attributes (nodes, setup_nodes/cleanup_nodes, bridged_nodes, params) and judge with this
module's own readers (``harness.read_objects``), never with the graph's own validation.
"""
import hashlib
import re

from travsim.harness import read_objects, obj_key, short_class, ROOTS
from travsim.harness import test_class as worker_free

SETS = ("normal.nongui.", "normal.gui.", "all.", "leaves.", "nonleaves.", "normal.", "minimal.")


def setless(name):
    """A test is the same test through whichever test set it was selected or found as a dependency."""
    for prefix in SETS:
        if name.startswith(prefix):
            return name[len(prefix):]
    return name


def test_class(name):
    """Worker- and selection-invariant form of a full test name."""
    return setless(worker_free(name))

_OBJ_CACHE = {}


def V(prop, oracle, signature, **detail):
    return {"property": prop, "oracle": oracle, "signature": signature, "detail": detail}


def node_objects(node):
    key = id(node)
    hit = _OBJ_CACHE.get(key)
    if hit is None or hit[0] != node.params.get("name"):
        from travsim.harness import permanent_vms
        hit = (node.params.get("name"), read_objects(node.params, permanent_vms(node)))
        _OBJ_CACHE[key] = hit
    return hit[1]


def worker_of(node):
    m = re.search(r"\.nets\.([A-Za-z0-9_]+)\.([A-Za-z0-9_]+)", node.params.get("name", ""))
    if not m:
        return None
    return m.group(2) if m.group(1) == "localhost" else m.group(1) + "." + m.group(2)


def label(node):
    return short_class(node.params.get("name", "?"))


def is_clone_source(node):
    return len(node.cloned_nodes) > 0


# --------------------------------------------------------------------------------------------
# C06
# --------------------------------------------------------------------------------------------

def check_wellformed(graph, phase, final=False):
    out = []
    nodes = list(graph.nodes)
    index = {id(n): n for n in nodes}
    # edge symmetry with equal object sets
    for n in nodes:
        for p, objs in n.setup_nodes.items():
            back = p.cleanup_nodes.get(n)
            if back is None:
                out.append(V("C06", "asymmetric-edge", f"a dependency of {label(n)} is not recorded on its parent's side",
                             phase=phase, parent=label(p)))
            elif set(map(id, back)) != set(map(id, objs)):
                out.append(V("C06", "asymmetric-edge", f"a dependency of {label(n)} is recorded with different objects on its two ends",
                             phase=phase, parent=label(p)))
            if id(p) not in index:
                out.append(V("C06", "foreign-node", f"{label(n)} depends on a node that is not in the graph", phase=phase,
                             parent=label(p)))
        for c, objs in n.cleanup_nodes.items():
            if n not in c.setup_nodes:
                out.append(V("C06", "asymmetric-edge", f"a dependant of {label(n)} does not record the dependency",
                             phase=phase, child=label(c)))
    # acyclicity (iterative DFS over setup edges)
    colour = {}
    for start in nodes:
        if colour.get(id(start)):
            continue
        stack = [(start, iter(list(start.setup_nodes)))]
        colour[id(start)] = 1
        while stack:
            node, it = stack[-1]
            for parent in it:
                c = colour.get(id(parent), 0)
                if c == 1:
                    out.append(V("C06", "cycle", f"the dependencies of {label(node)} form a cycle", phase=phase))
                elif c == 0:
                    colour[id(parent)] = 1
                    stack.append((parent, iter(list(parent.setup_nodes))))
                    break
            else:
                colour[id(node)] = 2
                stack.pop()
    # exactly one starting node; everything reachable from it (once the shared root exists)
    roots = [n for n in nodes if n.is_shared_root()]
    if len(roots) > 1:
        out.append(V("C06", "several-roots", "the graph has more than one starting node", phase=phase, n=len(roots)))
    if len(roots) == 1 and final:
        seen = {id(roots[0])}
        todo = [roots[0]]
        while todo:
            node = todo.pop()
            for child in node.cleanup_nodes:
                if id(child) not in seen:
                    seen.add(id(child))
                    todo.append(child)
        for n in nodes:
            if id(n) not in seen and not is_clone_source(n):
                out.append(V("C06", "unreachable", f"{label(n)} cannot be reached from the starting node", phase=phase,
                             name=n.params.get("name")))
    elif len(roots) == 0 and final:
        out.append(V("C06", "no-root", "the graph has no starting node", phase=phase))
    # identities
    by_name = {}
    for n in nodes:
        by_name.setdefault(n.params.get("name"), []).append(n)
    for name, group in by_name.items():
        runnable = [n for n in group if not is_clone_source(n)]
        if len(runnable) > 1 and not all(n.is_flat() for n in runnable):
            out.append(V("C06", "duplicate-node", f"two nodes have the identity of {short_class(name)}", phase=phase, name=name,
                         prefixes=[n.prefix for n in group]))
    ids = {}
    for n in nodes:
        if n.is_flat() or is_clone_source(n) or n.is_shared_root():
            continue
        ids.setdefault(n.id, []).append(n)
    for nid, group in ids.items():
        if len(group) > 1:
            out.append(V("C06", "duplicate-id", f"two runnable nodes share the id of {label(group[0])}", phase=phase, id=nid))
    # per node: one net, vms as named, unique producer per required state, clone sources not runnable
    for n in nodes:
        if n.is_flat() or n.is_shared_root():
            continue
        nets = [o for o in n.objects if o.key == "nets"]
        if len(nets) != 1:
            out.append(V("C06", "net-objects", f"{label(n)} does not use exactly one network object", phase=phase, n=len(nets)))
        vms_attr = sorted(o.suffix for o in n.objects if o.key == "vms")
        vms_param = sorted(n.params.get("vms", "").split())
        if vms_attr != vms_param:
            out.append(V("C06", "vm-objects", f"{label(n)} does not use exactly the vms its parameters name", phase=phase,
                         objects=vms_attr, params=vms_param))
        if is_clone_source(n):
            continue
        me = worker_of(n)
        for o in node_objects(n):
            if o["get_state"] in ROOTS or o["permanent"]:
                continue
            okey = obj_key(o)
            producers = []
            for p in n.setup_nodes:
                if p.is_flat() or p.is_shared_root():
                    continue
                for s in node_objects(p):
                    if obj_key(s) == okey and s["set_state"] == o["get_state"]:
                        producers.append(p)
            if len(producers) != 1:
                # a test may produce what it requires through an earlier clone generation: only parents count
                out.append(V("C06", "producer-count",
                             f"{label(n)} has {'no' if not producers else 'several'} parent producing the {o['type']} state {o['get_state']} it requires",
                             phase=phase, state=o["get_state"], obj=okey, producers=[label(p) for p in producers]))
            for p in producers:
                if worker_of(p) != me:
                    out.append(V("C06", "foreign-producer", f"{label(n)} depends on a producer parsed for another worker",
                                 phase=phase, producer=p.params.get("name")))
    return dedup(out)


# --------------------------------------------------------------------------------------------
# C09 (a): equivalent linked copies
# --------------------------------------------------------------------------------------------

def check_bridging(graph, phase, unrestricted_workers):
    out = []
    classes = {}
    for n in graph.nodes:
        if n.is_flat() or n.is_shared_root():
            continue
        classes.setdefault(test_class(n.params["name"]), []).append(n)
    for cls, group in classes.items():
        for a in group:
            for b in group:
                if a is b or worker_of(a) == worker_of(b):
                    continue
                if b not in a.bridged_nodes:
                    out.append(V("C09", "not-bridged", f"equivalent copies of {label(a)} for two workers are not linked",
                                 phase=phase, a=worker_of(a), b=worker_of(b)))
                    continue
                if a not in b.bridged_nodes:
                    out.append(V("C09", "asymmetric-bridge", f"the link between copies of {label(a)} is one-sided", phase=phase))
                for reg in ("_picked_by_setup_nodes", "_dropped_setup_nodes", "_picked_by_cleanup_nodes", "_dropped_cleanup_nodes"):
                    if getattr(a, reg) is not getattr(b, reg):
                        out.append(V("C09", "unshared-bookkeeping", f"copies of {label(a)} do not share their visit bookkeeping",
                                     phase=phase, register=reg))
        for a in group:
            for b in a.bridged_nodes:
                if test_class(b.params["name"]) != cls:
                    out.append(V("C09", "wrong-bridge", f"{label(a)} is linked to a test that is not its equivalent", phase=phase,
                                 other=label(b)))
    return dedup(out)


def check_worker_copies(graph, phase, unrestricted_workers):
    """Eager graphs: unrestricted workers get the same classes."""
    out = []
    per_worker = {}
    for n in graph.nodes:
        if n.is_flat() or n.is_shared_root():
            continue
        per_worker.setdefault(worker_of(n), set()).add(test_class(n.params["name"]))
    plain = [w for w in per_worker if w in unrestricted_workers]
    for w in plain[1:]:
        if per_worker[w] != per_worker[plain[0]]:
            diff = sorted(per_worker[w] ^ per_worker[plain[0]])
            out.append(V("C09", "unequal-copies", "two unrestricted workers received different graph copies", phase=phase,
                         workers=[plain[0], w], differing=[short_class(c) for c in diff][:5]))
    union = set().union(*[per_worker[w] for w in plain]) if plain else None
    if union is not None:
        for w, classes in per_worker.items():
            if w not in plain and not classes <= union:
                out.append(V("C09", "restricted-copy-not-subset", "a restricted worker received tests the unrestricted ones lack",
                             phase=phase, worker=w))
    return dedup(out)


def graph_signature(graph):
    """(name -> sorted parent names, params digest) of all composite nodes."""
    sig = {}
    for n in graph.nodes:
        if n.is_flat() or n.is_shared_root():
            continue
        parents = sorted(setless(p.params["name"]) for p in n.setup_nodes if not p.is_flat() and not p.is_shared_root())
        keys = sorted(k for k in n.params if not k.startswith("_") and k not in ("dep",))
        digest = hashlib.sha256(repr([(k, n.params[k]) for k in keys if not k.startswith("get_location") and
                                      not re.match(r"nets_.*_(net\d+|cluster\d+\.net\d+)$", k)]).encode()).hexdigest()[:12]
        sig.setdefault(setless(n.params["name"]), []).append((parents, digest, is_clone_source(n)))
    return sig


def compare_lazy_eager(lazy, eager, phase):
    out = []
    lsig, esig = graph_signature(lazy), graph_signature(eager)
    for name, entries in lsig.items():
        runnable = [e for e in entries if not e[2]]
        if not runnable:
            continue
        if name not in esig:
            out.append(V("C09", "lazy-extra-node", f"lazy expansion produced {short_class(name)} which a complete parse does not have",
                         phase=phase, name=name))
            continue
        eparents = [e[0] for e in esig[name] if not e[2]]
        for parents, _, _ in runnable:
            if eparents and parents not in eparents:
                out.append(V("C09", "lazy-eager-dependencies",
                             f"{short_class(name)} expanded lazily has other dependencies than when parsed up front",
                             phase=phase, lazy=[short_class(p) for p in parents],
                             eager=[[short_class(p) for p in ps] for ps in eparents]))
    # the workers together expand every selected compatible test
    lazy_classes = {test_class(n) for n, es in lsig.items() if any(not e[2] for e in es)}
    for name, entries in esig.items():
        if all(e[2] for e in entries):
            continue
        if test_class(name) not in lazy_classes:
            out.append(V("C09", "lazy-missing-test", f"no worker expanded {short_class(name)} which a complete parse contains",
                         phase=phase, name=name))
    return dedup(out)


def compare_twice(first, second, phase):
    out = []
    a, b = graph_signature(first), graph_signature(second)
    if a != b:
        names = sorted(set(a) ^ set(b)) or sorted(n for n in a if a[n] != b.get(n))
        out.append(V("C09", "parse-not-repeatable", "parsing the same input twice gave different graphs", phase=phase,
                     differing=[short_class(n) for n in names][:5]))
    return out


# --------------------------------------------------------------------------------------------
# C16: index and counters
# --------------------------------------------------------------------------------------------

def naive_lookup(names, query):
    q = query.split(".")
    hits = []
    for i, name in enumerate(names):
        v = name.split(".")
        if any(v[j:j + len(q)] == q for j in range(len(v) - len(q) + 1)):
            hits.append(i)
    return hits


def check_index(graph, phase, pick, n_queries=12):
    """Compare name lookups with a naive contiguous-subsequence scan."""
    out = []
    nodes = list(graph.nodes)
    names = [n.params["name"] for n in nodes]
    if not names:
        return out
    alphabet = sorted({v for name in names for v in name.split(".")})
    queries = []
    for i in range(n_queries):
        name = names[pick(f"qname{i}", len(names))]
        v = name.split(".")
        start = pick(f"qstart{i}", len(v))
        length = 1 + pick(f"qlen{i}", min(4, len(v) - start))
        q = v[start:start + length]
        mode = pick(f"qmode{i}", 4)
        if mode == 3 and len(q) > 1:
            q = q[::-1]                      # mostly absent
        elif mode == 2:
            q = q + [alphabet[pick(f"qextra{i}", len(alphabet))]]
        queries.append(".".join(q))
    for q in queries:
        qv = q.split(".")
        # the property is stated for names that do not repeat a variant; multi-vm names do repeat some
        # (default_bios, qcow2, ...): queries matching one name at two positions are outside its domain
        if any(sum(1 for j in range(len(v) - len(qv) + 1) if v[j:j + len(qv)] == qv) > 1
               for v in (name.split(".") for name in names)):
            continue
        want = naive_lookup(names, q)
        got_nodes = graph.get_nodes_by_name(q)
        got = sorted(i for i, n in enumerate(nodes) if any(n is g for g in got_nodes))
        dup = len(got_nodes) != len({id(g) for g in got_nodes})
        # duplicates by name are indistinguishable for the index (it keeps one per full name)
        want_names, got_names = sorted({names[i] for i in want}), sorted({n.params["name"] for n in got_nodes})
        if want_names != got_names:
            out.append(V("C16", "lookup-mismatch", "a lookup by partial name does not return exactly the tests containing it",
                         phase=phase, query=q, missing=[short_class(n) for n in sorted(set(want_names) - set(got_names))][:4],
                         extra=[short_class(n) for n in sorted(set(got_names) - set(want_names))][:4]))
        if dup:
            out.append(V("C16", "lookup-duplicate", "a lookup returned the same test twice", phase=phase, query=q))
        if (q in graph.nodes_index) != bool(got_nodes):
            out.append(V("C16", "membership-mismatch", "a membership query disagrees with the lookup", phase=phase, query=q))
    out += check_reindexed(nodes, names, queries, phase, pick)
    return dedup(out)


def check_reindexed(nodes, names, queries, phase, pick):
    """Insertion order: the same tests inserted into a fresh index in a permuted order answer the same."""
    from avocado_i2n.cartgraph.node import PrefixTree
    out = []
    order = list(range(len(nodes)))
    mode = pick("reorder", 3)
    if mode == 0:
        order.reverse()
    elif mode == 1:
        # longest names first: expanded tests before the flat tests they were expanded from
        order.sort(key=lambda i: (-len(names[i].split(".")), names[i]))
    else:
        for i in range(len(order) - 1, 0, -1):
            j = pick(f"shuffle{i}", i + 1)
            order[i], order[j] = order[j], order[i]
    tree = PrefixTree()
    for i in order:
        tree.insert(nodes[i])
    # every test is found by its own full name and by the queries, as in the naive scan
    own = [names[pick(f"own{k}", len(names))] for k in range(4)]
    for q in queries + own:
        qv = q.split(".")
        if any(sum(1 for j in range(len(v) - len(qv) + 1) if v[j:j + len(qv)] == qv) > 1
               for v in (name.split(".") for name in names)):
            continue
        want_names = sorted({names[i] for i in naive_lookup(names, q)})
        got_nodes = tree.get(q)
        got_names = sorted({n.params["name"] for n in got_nodes})
        if want_names != got_names:
            out.append(V("C16", "lookup-depends-on-insertion-order",
                         "the same tests inserted in another order are not found by a partial name exactly when they contain it",
                         phase=phase, query=q, missing=[short_class(n) for n in sorted(set(want_names) - set(got_names))][:4],
                         extra=[short_class(n) for n in sorted(set(got_names) - set(want_names))][:4]))
        if len(got_nodes) != len({id(g) for g in got_nodes}):
            out.append(V("C16", "lookup-duplicate", "a lookup returned the same test twice", phase=phase, query=q))
        if (q in tree) != bool(got_nodes):
            out.append(V("C16", "membership-mismatch", "a membership query disagrees with the lookup", phase=phase, query=q))
    return out


class RegisterShadow:
    """Shadow model of EdgeRegister: (register identity, node form, worker) -> count."""

    def __init__(self):
        self.counts = {}
        self.registers = {}
        self.visits = {}

    def install(self):
        from avocado_i2n.cartgraph import node as node_mod
        shadow = self
        real = node_mod.EdgeRegister.register
        if getattr(real, "_verif_wrapped", False):
            node_mod.EdgeRegister._verif_shadow[0] = shadow
            return

        holder = [shadow]

        def register(self, node, worker):
            sh = holder[0]
            key = (id(self), node.bridged_form, worker.id)
            sh.counts[key] = sh.counts.get(key, 0) + 1
            sh.registers[id(self)] = self
            return real(self, node, worker)

        register._verif_wrapped = True
        node_mod.EdgeRegister.register = register
        node_mod.EdgeRegister._verif_shadow = holder

        # second model, per test instead of per register object: what every equivalent copy must report, also after
        # copies of other workers were linked to it later (a link must not forget visits)
        def wrap(name, owner_of, registered_of, kind):
            real_method = getattr(node_mod.TestNode, name)

            def method(self, *a, **kw):
                result = real_method(self, *a, **kw)
                sh = holder[0]
                worker = a[-1] if a else kw.get("worker")
                owner, other = owner_of(self, a, result), registered_of(self, a, result)
                key = (owner.bridged_form, kind, other.bridged_form, worker.id)
                sh.visits[key] = sh.visits.get(key, 0) + 1
                return result

            setattr(node_mod.TestNode, name, method)

        wrap("pick_parent", lambda s, a, r: r, lambda s, a, r: s, "_picked_by_cleanup_nodes")
        wrap("pick_child", lambda s, a, r: r, lambda s, a, r: s, "_picked_by_setup_nodes")
        wrap("drop_parent", lambda s, a, r: s, lambda s, a, r: a[0], "_dropped_setup_nodes")
        wrap("drop_child", lambda s, a, r: s, lambda s, a, r: a[0], "_dropped_cleanup_nodes")

    def check(self, graph, phase, prop="C16"):
        out = self._check(graph, phase)
        if prop != "C16":
            # C09: progress made by one worker is seen by all (only the per-test model)
            out = [dict(v, property=prop, oracle="progress-forgotten") for v in out if v["oracle"] == "visits-lost"]
        return out

    def _check(self, graph, phase):
        out = []
        workers = list(graph.workers.values())
        for n in graph.nodes:
            for reg_name in ("_picked_by_setup_nodes", "_dropped_setup_nodes", "_picked_by_cleanup_nodes", "_dropped_cleanup_nodes"):
                reg = getattr(n, reg_name)
                # counters of the neighbours registered in this node's register
                neighbours = list(n.setup_nodes) + list(n.cleanup_nodes)
                for other in neighbours[:6]:
                    for w in workers:
                        want = self.counts.get((id(reg), other.bridged_form, w.id), 0)
                        got = reg.get_counters(other, w)
                        if got != want:
                            out.append(V("C16", "counter-mismatch", "a visit counter differs from the visits registered",
                                         phase=phase, register=reg_name, node=label(n), other=label(other), worker=w.id,
                                         got=got, want=want))
                        want = self.visits.get((n.bridged_form, reg_name, other.bridged_form, w.id), 0)
                        if got != want:
                            out.append(V("C16", "visits-lost", "a test does not report the visits registered for it or for its "
                                         "equivalent copies of other workers", phase=phase, register=reg_name, node=label(n),
                                         other=label(other), worker=w.id, got=got, want=want))
                    want_workers = {w for (r, form, w), c in self.counts.items() if r == id(reg) and form == other.bridged_form}
                    if set(reg.get_workers(other)) != want_workers:
                        out.append(V("C16", "visitors-mismatch", "the visitors reported for a test differ from those registered",
                                     phase=phase, register=reg_name, node=label(n)))
        return dedup(out)


def dedup(violations):
    seen, out = set(), []
    for v in violations:
        key = (v["property"], v["oracle"], v["signature"])
        if key not in seen:
            seen.add(key)
            out.append(v)
    return out
