"""Independent reading of the Cartesian configuration (DESIGN.md 3.9, 3.10, 3.4).

Nothing here uses ``avocado_i2n.cartgraph`` or ``params_parser.join_str``: the configuration
files are fed to the Cartesian parser alone (through the memoising front end) and the flat
dictionaries are interpreted with this module's own suffix resolution and restriction matcher.
"""
import os
import re

from sim.memo import MemoParser

_CACHE = {}


def suite_path_of(scenario):
    path = scenario.get("suite_path")
    if path:
        return path
    import avocado_i2n
    return os.path.join(os.path.dirname(os.path.dirname(os.path.abspath(avocado_i2n.__file__))), "tp_folder")


def _dicts(suite_path, filename, extra=""):
    key = (suite_path, filename, extra)
    if key not in _CACHE:
        parser = MemoParser()
        parser.parse_string("hostname = simhost\n")
        parser.parse_string("suite_path = %s\n" % suite_path)
        parser.parse_string("test_pre_hook = %s\n" % os.path.join(suite_path, "controls", "pre_test.control"))
        parser.parse_file(os.path.join(suite_path, "configs", filename))
        if extra:
            parser.parse_string(extra)
        _CACHE[key] = list(parser.get_dicts())
    return _CACHE[key]


def worker_table(suite_path):
    """worker id -> access parameters and vm restrictions, straight from nets.cfg."""
    table = {}
    for d in _dicts(suite_path, "nets.cfg"):
        wid = d["shortname"]
        access = {k: v for k, v in d.items() if k.startswith("nets_")}
        access["nets"] = d.get("nets", wid.split(".")[-1])
        only, no = {}, {}
        for k, v in d.items():
            if k.startswith("only_"):
                only[k[5:]] = [t.strip() for t in v.split(",") if t.strip()]
            elif k.startswith("no_"):
                no[k[3:]] = [t.strip() for t in v.split(",") if t.strip()]
        table[wid] = {"access": access, "only": only, "no": no, "name": d["name"]}
    return table


def vm_variants(suite_path):
    """vm suffix -> list of variant names (dotted), from vms.cfg restricted to that vm."""
    out = {}
    for d in _dicts(suite_path, "guest-base.cfg"):
        vms = d.get("vms", "").split()
        break
    for vm in vms:
        names = []
        for d in _dicts(suite_path, "vms.cfg", f"only {vm}\n"):
            names.append(d["name"])
        out[vm] = names
    return out


def token_matches(token, name):
    return re.search(r"(\.|^)" + re.escape(token) + r"(\.|$)", name) is not None


def apply_restriction(lines, names):
    """Filter variant names by 'only a, b' / 'no a, b' lines (own matcher)."""
    names = list(names)
    for line in lines.splitlines():
        line = line.strip()
        if line.startswith("only "):
            toks = [t.strip() for t in line[5:].split(",") if t.strip()]
            names = [n for n in names if any(token_matches(t, n) for t in toks)]
        elif line.startswith("no "):
            toks = [t.strip() for t in line[3:].split(",") if t.strip()]
            names = [n for n in names if not any(token_matches(t, n) for t in toks)]
    return names


def selected_tests(suite_path, restriction, params=None):
    """Flat selected tests: name, vms, per-vm restrictions (from sets.cfg through the parser alone)."""
    if "\n" not in restriction:
        restriction = "only %s\n" % restriction
    extra = restriction
    out = []
    for d in _dicts(suite_path, "sets.cfg", extra):
        only, no = {}, {}
        for k, v in d.items():
            if k.startswith("only_"):
                only[k[5:]] = [t.strip() for t in v.split(",") if t.strip()]
            elif k.startswith("no_"):
                no[k[3:]] = [t.strip() for t in v.split(",") if t.strip()]
        out.append({"name": d["name"], "vms": d.get("vms", "").split(), "only": only, "no": no,
                    "main_vm": d.get("main_vm")})
    return out


def compatible_variants(test, vm, worker, vm_strs, variants):
    names = variants.get(vm, [])
    names = apply_restriction(vm_strs.get(vm, ""), names)
    if vm in test["only"]:
        names = [n for n in names if any(token_matches(t, n) for t in test["only"][vm])]
    if vm in test["no"]:
        names = [n for n in names if not any(token_matches(t, n) for t in test["no"][vm])]
    if vm in worker["only"]:
        names = [n for n in names if any(token_matches(t, n) for t in worker["only"][vm])]
    if vm in worker["no"]:
        names = [n for n in names if not any(token_matches(t, n) for t in worker["no"][vm])]
    return names


def expected_tests(scenario):
    """Selected flat tests that at least one worker of the set can run (under-approximated)."""
    suite_path = suite_path_of(scenario)
    table = worker_table(suite_path)
    variants = vm_variants(suite_path)
    tests = selected_tests(suite_path, scenario["tests"])
    workers = [table[w] for w in scenario["nets"].split() if w in table]
    default_vm = None
    for d in _dicts(suite_path, "guest-base.cfg"):
        default_vm = d.get("main_vm")
        break
    expected = []
    for test in tests:
        vms = test["vms"] or [test.get("main_vm") or default_vm]
        for worker in workers:
            if all(compatible_variants(test, vm, worker, scenario["vm_strs"], variants) for vm in vms):
                expected.append(test["name"])
                break
    return expected


def expected_combinations(scenario):
    """(flat test, {vm: variant token}) pairs that at least one worker can run (under-approximated)."""
    import itertools
    suite_path = suite_path_of(scenario)
    table = worker_table(suite_path)
    variants = vm_variants(suite_path)
    tests = selected_tests(suite_path, scenario["tests"])
    workers = [table[w] for w in scenario["nets"].split() if w in table]
    default_vm = None
    for d in _dicts(suite_path, "guest-base.cfg"):
        default_vm = d.get("main_vm")
        break
    out = []
    for test in tests:
        vms = test["vms"] or [test.get("main_vm") or default_vm]
        setless = strip_set(test["name"])
        for worker in workers:
            per_vm = [compatible_variants(test, vm, worker, scenario["vm_strs"], variants) for vm in vms]
            if not all(per_vm):
                continue
            for combo in itertools.product(*per_vm):
                tokens = {vm: variant_token(v) for vm, v in zip(vms, combo)}
                names = dict(zip(vms, combo))
                # restrictions that one vm's variant puts on another vm (conditional blocks)
                ok = True
                for vm in vms:
                    ds = compose(suite_path, vm, tokens[vm], "all.." + setless)
                    d = next((x for x in ds if strip_set(flat_part(x["name"])) == setless), None)
                    if d is None:
                        ok = False
                        break
                    for other in vms:
                        only = [t.strip() for t in d.get(f"only_{other}", "").split(",") if t.strip()]
                        no = [t.strip() for t in d.get(f"no_{other}", "").split(",") if t.strip()]
                        if only and not any(token_matches(t, names[other]) for t in only):
                            ok = False
                        if no and any(token_matches(t, names[other]) for t in no):
                            ok = False
                if ok and (test["name"], tokens) not in out:
                    out.append((test["name"], tokens))
    return out


def context_for(prop, history):
    scenario = history["scenario"]
    if prop == "C02":
        try:
            return {"expected_tests": {"*": expected_tests(scenario)},
                    "expected_combos": expected_combinations(scenario)}
        except Exception as error:  # resolver problems must never become verdicts
            raise RuntimeError(f"resolver failed: {error!r}")
    if prop == "C08":
        return {"worker_table": worker_table(suite_path_of(scenario))}
    if prop == "C20":
        sp = suite_path_of(scenario)
        table = worker_table(sp)
        variants = vm_variants(sp)
        comp = {}
        for w in scenario["nets"].split():
            comp[w] = {}
            for vm in scenario["selected_vms"]:
                test = {"only": {}, "no": {}}
                comp[w][vm] = bool(compatible_variants(test, vm, table[w], scenario["vm_strs"], variants))
        return {"compatible": comp}
    if prop == "C15":
        sp = suite_path_of(scenario)
        vms_params = scenario.get("vms_params", {})
        exp = {}
        for vm in sorted(scenario["vm_strs"]):
            f = vms_params.get(f"from_state_{vm}", vms_params.get("from_state", "install"))
            t = vms_params.get(f"to_state_{vm}", vms_params.get("to_state", "customize"))
            rs = vms_params.get(f"remove_set_{vm}", vms_params.get("remove_set", "leaves"))
            exp[vm] = update_expectation(sp, vm, scenario["vm_strs"][vm], f, t, rs)
        return {"expectations": exp}
    return {}


# --------------------------------------------------------------------------------------------
# dependency resolver (C07, also C05/C15): follows the get/set declarations on its own
# --------------------------------------------------------------------------------------------

def variant_token(vm_variant_name):
    """The component that tells the variants of one vm apart (third component: vms.<vm>.<variant>)."""
    parts = vm_variant_name.split(".")
    return parts[2] if len(parts) > 2 and parts[0] == "vms" else parts[-1]


def compose(suite_path, vm, token, test_restriction):
    """Dictionaries of ``test_restriction`` in the context of one vm variant (parser alone)."""
    key = ("compose", suite_path, vm, token, test_restriction)
    if key not in _CACHE:
        parser = MemoParser()
        parser.parse_string("hostname = simhost\nsuite_path = %s\n" % suite_path)
        parser.parse_file(os.path.join(suite_path, "configs", "vms.cfg"))
        parser.parse_string("only %s\nonly %s\n" % (vm, token))
        parser.parse_file(os.path.join(suite_path, "configs", "sets.cfg"))
        parser.parse_string("only %s\n" % test_restriction)
        try:
            _CACHE[key] = list(parser.get_dicts())
        except Exception:
            _CACHE[key] = []
    return _CACHE[key]


def typed(d, key, typ, vm):
    """Own suffix resolution: most specific of K_<type>_<vm>, K_<type>, K_<vm>, K."""
    for k in (f"{key}_{typ}_{vm}", f"{key}_{typ}", f"{key}_{vm}", key):
        if k in d:
            return d[k]
    return None


def flat_part(name):
    return name.split(".vms.")[0]


def strip_set(flat):
    """Drop the leading test-set variant (all, leaves, normal.nongui, ...)."""
    for prefix in ("normal.nongui.", "normal.gui.", "all.", "leaves.", "nonleaves.", "normal.", "minimal."):
        if flat.startswith(prefix):
            return flat[len(prefix):]
    return flat


class Resolver:
    def __init__(self, suite_path):
        self.suite_path = suite_path
        self.memo = {}

    def test_dict(self, setless, vm, token):
        ds = compose(self.suite_path, vm, token, "all.." + setless)
        exact = [d for d in ds if strip_set(flat_part(d["name"])) == setless]
        return exact[0] if exact else (ds[0] if len(ds) == 1 else None)

    def producers(self, setless, vm, token, typ):
        """Expanded producers [(setless name incl. clone branch, produced state)] for one object of a test."""
        key = (setless, vm, token, typ)
        if key in self.memo:
            return self.memo[key]
        self.memo[key] = []  # recursion guard
        d = self.test_dict(setless, vm, token)
        out = []
        if d is not None:
            restriction = typed(d, "get", typ, vm)
            if restriction:
                for cand in compose(self.suite_path, vm, token, "all.." + restriction):
                    cname = strip_set(flat_part(cand["name"]))
                    out += self.expand(cname, vm, token, typ)
        self.memo[key] = out
        return out

    def expand(self, setless, vm, token, typ):
        """A test as producer for (vm, typ): itself, or one clone per producer it depends on itself."""
        d = self.test_dict(setless, vm, token)
        if d is None:
            return []
        state = typed(d, "set_state", typ, vm) or ""
        ups = self.producers(setless, vm, token, typ)
        if len(ups) > 1:
            return [(f"{setless}.{up_state}", (state + "." + up_state) if state else "") for (_, up_state) in ups]
        return [(setless, state)]


def check_dependencies(graph, suite_path, phase):
    """C07: the edges of every composite node equal the resolver's."""
    from travsim.graphcheck import V, dedup, label, is_clone_source, worker_of
    out = []
    res = Resolver(suite_path)
    for n in graph.nodes:
        if n.is_flat() or n.is_shared_root() or is_clone_source(n):
            continue
        name = n.params["name"]
        flat = strip_set(flat_part(name))
        accounted = set()
        vm_objects = [o for o in n.objects if o.key == "vms"]
        for vm_obj in vm_objects:
            vm = vm_obj.suffix
            token = variant_token(vm_obj.params["name"])
            for typ, objs in (("vms", [vm_obj]), ("images", [o for o in n.objects if o.key == "images" and o.composites and o.composites[0] is vm_obj])):
                for obj in objs:
                    # the base test of a clone: strip trailing branch components until a test matches
                    base, branch = flat, ""
                    while res.test_dict(base, vm, token) is None and "." in base:
                        base, last = base.rsplit(".", 1)
                        branch = last + ("." + branch if branch else "")
                    expected = res.producers(base, vm, token, typ)
                    if branch and len(expected) > 1:
                        expected = [e for e in expected if e[1] == branch or branch.endswith(e[1]) or e[1].endswith(branch)]
                    actual = []
                    for p, pobjs in n.setup_nodes.items():
                        if p.is_flat() or p.is_shared_root():
                            continue
                        if any(po is obj or (po.key == obj.key and po.long_suffix == obj.long_suffix) for po in pobjs):
                            actual.append(p)
                            accounted.add(id(p))
                    # a producer has to work on this very object (same vm, same variant), not on a namesake
                    for p in actual:
                        if not any(po.key == "vms" and po.suffix == vm and variant_token(po.params["name"]) == token
                                   for po in p.objects):
                            out.append(V("C07", "dependency-on-other-object",
                                         f"{label(n)} depends for {typ} of {vm} on a test that does not use that object",
                                         phase=phase, parent=label(p), parent_vms=p.params.get("vms")))
                    want = sorted({e[0] for e in expected})
                    got = sorted({strip_set(flat_part(p.params["name"])) for p in actual})
                    if len(want) > 1 and not branch:
                        out.append(V("C07", "not-cloned", f"{label(n)} has several producers for one object but was not cloned per producer",
                                     phase=phase, vm=vm, typ=typ, producers=want))
                        continue
                    if want != got:
                        missing, spurious = sorted(set(want) - set(got)), sorted(set(got) - set(want))
                        sig = "misses a declared dependency" if missing else "has a dependency the configuration does not declare"
                        out.append(V("C07", "wrong-dependencies", f"{label(n)} {sig} ({typ} of {vm})", phase=phase,
                                     missing=missing, spurious=spurious, worker=worker_of(n)))
                    if len(actual) > len(set(got)):
                        out.append(V("C07", "duplicated-dependency", f"{label(n)} has the same dependency twice ({typ} of {vm})",
                                     phase=phase))
                    # branch-specific state names of clones
                    if branch and expected:
                        from travsim.harness import read_objects
                        from travsim.harness import permanent_vms
                        mine = [o for o in read_objects(n.params, permanent_vms(n)) if o["vm"] == vm and o["type"] == typ]
                        if mine and mine[0]["get_state"] != expected[0][1]:
                            out.append(V("C07", "clone-state", f"a clone of {label(n)} does not start from its producer's state",
                                         phase=phase, got=mine[0]["get_state"], want=expected[0][1]))
        for p in n.setup_nodes:
            if p.is_flat() or p.is_shared_root():
                continue
            if id(p) not in accounted:
                out.append(V("C07", "unattributed-dependency", f"{label(n)} depends on {label(p)} through no object of its own",
                             phase=phase))
    return dedup(out)


# --------------------------------------------------------------------------------------------
# C15: what an update of a vm from one state to another has to run and to remove
# --------------------------------------------------------------------------------------------

def update_expectation(suite_path, vm, vm_restr, from_state, to_state, remove_set="leaves"):
    """Per vm variant: tests on the path from from_state to to_state inclusive, states of ``vm`` derived from to_state."""
    variants = apply_restriction(vm_restr, vm_variants(suite_path).get(vm, []))
    if not variants:
        return None
    per_variant = [update_expectation_for_variant(suite_path, vm, v, from_state, to_state, remove_set) for v in variants]
    if any(e.get("invalid") for e in per_variant):
        return {"invalid": True}
    return {"invalid": False, "variants": per_variant}


def update_expectation_for_variant(suite_path, vm, variant, from_state, to_state, remove_set="leaves"):
    variants = [variant]
    token = variant_token(variants[0])
    res = Resolver(suite_path)

    def test_named(state):
        if state == "install":
            # the installation is whatever creates the object: the "original" tests
            ds = compose(suite_path, vm, token, "all..original")
        else:
            ds = compose(suite_path, vm, token, "all.." + state)
        if state == "install":
            # the installation variant in use is the one the customization depends on
            cust = res.test_dict("internal.automated.customize", vm, token)
            want = typed(cust, "get", "images", vm) if cust else None
            ds = [d for d in ds if want and re.search(r"(\.|^)" + re.escape(want) + r"(\.|$)", d["name"])] or ds
        return [strip_set(flat_part(d["name"])) for d in ds]

    def parents(test):
        out = []
        for typ in ("images", "vms"):
            for name, state in res.producers(test, vm, token, typ):
                out.append(name)
        return out

    targets = test_named(to_state)
    sources = test_named(from_state)
    if len(targets) != 1 or len(sources) != 1:
        return {"invalid": True}
    target, source = targets[0], sources[0]
    # the path: walk up from the target until the source
    path, cur, guard = [target], target, 0
    while cur != source and guard < 20:
        ups = parents(cur)
        if not ups:
            return {"invalid": True}
        cur = ups[0]
        path.append(cur)
        guard += 1
    if cur != source:
        return {"invalid": True}
    # descendants of the target among the remove set, following the dependencies of this vm only
    universe = [strip_set(t["name"]) for t in selected_tests(suite_path, remove_set if ".." in remove_set or remove_set in
                                                              ("leaves", "normal", "minimal", "all", "nonleaves") else "all.." + remove_set)]
    derived = {}

    def ancestors(test, seen):
        """All (expanded) producer names above a test, for this vm."""
        out = set()
        for up in parents(test):
            if up in seen:
                continue
            seen.add(up)
            out.add(up)
            base = up
            while res.test_dict(base, vm, token) is None and "." in base:
                base = base.rsplit(".", 1)[0]
            out |= ancestors(base, seen) if base == up else ancestors_of_clone(up, base, seen)
        return out

    def ancestors_of_clone(clone, base, seen):
        # a clone descends from exactly the producer its branch names, and from the base test's other setup
        branch = clone[len(base) + 1:]
        out = set()
        for typ in ("images", "vms"):
            for name, state in res.producers(base, vm, token, typ):
                if state == branch or branch.endswith(state) or state.endswith(branch):
                    if name not in seen:
                        seen.add(name)
                        out.add(name)
                        nb = name
                        while res.test_dict(nb, vm, token) is None and "." in nb:
                            nb = nb.rsplit(".", 1)[0]
                        out |= ancestors(nb, seen) if nb == name else ancestors_of_clone(name, nb, seen)
        return out

    closure = {}
    for leaf in universe:
        d = res.test_dict(leaf, vm, token)
        if d is None:
            continue
        # the test's own restrictions on this vm's variant
        only = [t.strip() for t in d.get(f"only_{vm}", "").split(",") if t.strip()]
        no = [t.strip() for t in d.get(f"no_{vm}", "").split(",") if t.strip()]
        if only and not any(token_matches(t, variants[0]) for t in only):
            continue
        if no and any(token_matches(t, variants[0]) for t in no):
            continue
        for typ in ("images", "vms"):
            for name, state in res.expand(leaf, vm, token, typ):
                closure.setdefault(name, {})[typ] = state
    # add every ancestor with the states it sets
    todo = list(closure)
    while todo:
        test = todo.pop()
        base = test
        while res.test_dict(base, vm, token) is None and "." in base:
            base = base.rsplit(".", 1)[0]
        ups = ancestors(base, set()) if base == test else ancestors_of_clone(test, base, set())
        for up in ups:
            if up not in closure:
                ub = up
                while res.test_dict(ub, vm, token) is None and "." in ub:
                    ub = ub.rsplit(".", 1)[0]
                closure[up] = {}
                for typ in ("images", "vms"):
                    for name, state in res.expand(ub, vm, token, typ):
                        if name == up:
                            closure[up][typ] = state
                todo.append(up)
    removed = set()
    for test, states in closure.items():
        base = test
        while res.test_dict(base, vm, token) is None and "." in base:
            base = base.rsplit(".", 1)[0]
        ups = ancestors(base, set()) if base == test else ancestors_of_clone(test, base, set())
        if target in ups:
            for typ, state in states.items():
                if state:
                    removed.add((typ, state))
    if target not in closure:
        # the target is not part of the graph spanned by the remove set: rejected
        return {"invalid": True, "reason": "target outside the remove set"}
    return {"invalid": False, "path": path, "removed": sorted(removed), "token": token}
