"""Independent knowledge about the configuration (filled in later rounds)."""


def context_for(prop, history):
    return {}
