"""Independent reading of the Cartesian configuration (DESIGN.md 3.9, 3.10, 3.4).

Nothing here uses ``avocado_i2n.cartgraph`` or ``params_parser.join_str``: the configuration
files are fed to the Cartesian parser alone (through the memoising front end) and the flat
dictionaries are interpreted with this module's own suffix resolution and restriction matcher.
"""
import os
import re

from sim.memo import MemoParser

_CACHE = {}


def suite_path_of(scenario):
    path = scenario.get("suite_path")
    if path:
        return path
    import avocado_i2n
    return os.path.join(os.path.dirname(os.path.dirname(os.path.abspath(avocado_i2n.__file__))), "tp_folder")


def _dicts(suite_path, filename, extra=""):
    key = (suite_path, filename, extra)
    if key not in _CACHE:
        parser = MemoParser()
        parser.parse_string("hostname = simhost\n")
        parser.parse_string("suite_path = %s\n" % suite_path)
        parser.parse_string("test_pre_hook = %s\n" % os.path.join(suite_path, "controls", "pre_test.control"))
        parser.parse_file(os.path.join(suite_path, "configs", filename))
        if extra:
            parser.parse_string(extra)
        _CACHE[key] = list(parser.get_dicts())
    return _CACHE[key]


def worker_table(suite_path):
    """worker id -> access parameters and vm restrictions, straight from nets.cfg."""
    table = {}
    for d in _dicts(suite_path, "nets.cfg"):
        wid = d["shortname"]
        access = {k: v for k, v in d.items() if k.startswith("nets_")}
        access["nets"] = d.get("nets", wid.split(".")[-1])
        only, no = {}, {}
        for k, v in d.items():
            if k.startswith("only_"):
                only[k[5:]] = [t.strip() for t in v.split(",") if t.strip()]
            elif k.startswith("no_"):
                no[k[3:]] = [t.strip() for t in v.split(",") if t.strip()]
        table[wid] = {"access": access, "only": only, "no": no, "name": d["name"]}
    return table


def vm_variants(suite_path):
    """vm suffix -> list of variant names (dotted), from vms.cfg restricted to that vm."""
    out = {}
    for d in _dicts(suite_path, "guest-base.cfg"):
        vms = d.get("vms", "").split()
        break
    for vm in vms:
        names = []
        for d in _dicts(suite_path, "vms.cfg", f"only {vm}\n"):
            names.append(d["name"])
        out[vm] = names
    return out


def token_matches(token, name):
    return re.search(r"(\.|^)" + re.escape(token) + r"(\.|$)", name) is not None


def apply_restriction(lines, names):
    """Filter variant names by 'only a, b' / 'no a, b' lines (own matcher)."""
    names = list(names)
    for line in lines.splitlines():
        line = line.strip()
        if line.startswith("only "):
            toks = [t.strip() for t in line[5:].split(",") if t.strip()]
            names = [n for n in names if any(token_matches(t, n) for t in toks)]
        elif line.startswith("no "):
            toks = [t.strip() for t in line[3:].split(",") if t.strip()]
            names = [n for n in names if not any(token_matches(t, n) for t in toks)]
    return names


def selected_tests(suite_path, restriction, params=None):
    """Flat selected tests: name, vms, per-vm restrictions (from sets.cfg through the parser alone)."""
    if "\n" not in restriction:
        restriction = "only %s\n" % restriction
    extra = restriction
    out = []
    for d in _dicts(suite_path, "sets.cfg", extra):
        only, no = {}, {}
        for k, v in d.items():
            if k.startswith("only_"):
                only[k[5:]] = [t.strip() for t in v.split(",") if t.strip()]
            elif k.startswith("no_"):
                no[k[3:]] = [t.strip() for t in v.split(",") if t.strip()]
        out.append({"name": d["name"], "vms": d.get("vms", "").split(), "only": only, "no": no,
                    "main_vm": d.get("main_vm")})
    return out


def compatible_variants(test, vm, worker, vm_strs, variants):
    names = variants.get(vm, [])
    names = apply_restriction(vm_strs.get(vm, ""), names)
    if vm in test["only"]:
        names = [n for n in names if any(token_matches(t, n) for t in test["only"][vm])]
    if vm in test["no"]:
        names = [n for n in names if not any(token_matches(t, n) for t in test["no"][vm])]
    if vm in worker["only"]:
        names = [n for n in names if any(token_matches(t, n) for t in worker["only"][vm])]
    if vm in worker["no"]:
        names = [n for n in names if not any(token_matches(t, n) for t in worker["no"][vm])]
    return names


def expected_tests(scenario):
    """Selected flat tests that at least one worker of the set can run (under-approximated)."""
    suite_path = suite_path_of(scenario)
    table = worker_table(suite_path)
    variants = vm_variants(suite_path)
    tests = selected_tests(suite_path, scenario["tests"])
    workers = [table[w] for w in scenario["nets"].split() if w in table]
    default_vm = None
    for d in _dicts(suite_path, "guest-base.cfg"):
        default_vm = d.get("main_vm")
        break
    expected = []
    for test in tests:
        vms = test["vms"] or [test.get("main_vm") or default_vm]
        for worker in workers:
            if all(compatible_variants(test, vm, worker, scenario["vm_strs"], variants) for vm in vms):
                expected.append(test["name"])
                break
    return expected


def context_for(prop, history):
    scenario = history["scenario"]
    if prop == "C02":
        try:
            return {"expected_tests": {"*": expected_tests(scenario)}}
        except Exception as error:  # resolver problems must never become verdicts
            raise RuntimeError(f"resolver failed: {error!r}")
    if prop == "C08":
        return {"worker_table": worker_table(suite_path_of(scenario))}
    return {}
