"""Oracles over recorded traversal histories (DESIGN.md 3.3 - 3.13).

Every oracle takes the history of one plan and returns a list of violations
``{"property", "oracle", "signature", "detail"}``.  Signatures contain only
schedule-independent facts so that a minimised plan can be matched against the original.
All judgements are made from the event log (what the simulator observed at its seams), not
from graph internals.
"""
import re

from travsim.harness import OK_STATUS

DEFINITE = {"PASS", "FAIL", "ERROR", "WARN", "SKIP", "CANCEL", "INTERRUPTED"}


def V(prop, oracle, signature, **detail):
    return {"property": prop, "oracle": oracle, "signature": signature, "detail": detail}


def scope_key(ev):
    """Reuse scope of an execution, from its own parameters as documented (README, pools)."""
    scopes = (ev.get("pool_scope") or "").split()
    spawner = ev.get("spawner")
    if spawner == "lxc" and "swarm" not in scopes:
        return ("worker", ev["worker"])
    if spawner == "remote" and "cluster" not in scopes:
        wid = ev["worker"]
        return ("swarm", wid.split(".")[0] if "." in wid else "localhost")
    return ("global",)


def is_creation_prestep(ev):
    return ev.get("type") == "shared_configure_install" and bool(ev.get("object_root"))


def is_creation_main(ev):
    return bool(ev.get("object_root")) and not is_creation_prestep(ev)


def epochs_of(history):
    by = {}
    for ev in history["events"]:
        by.setdefault(ev["epoch"], []).append(ev)
    return by


def executions(events):
    """Pair start/end(/crash) events: list of dicts with start, end (or None), status."""
    execs = {}
    order = []
    for ev in events:
        if ev["kind"] == "start":
            execs[ev["serial"]] = {"start": ev, "end": None, "status": None, "crashed": False}
            order.append(ev["serial"])
        elif ev["kind"] == "end":
            execs[ev["serial"]]["end"] = ev
            execs[ev["serial"]]["status"] = ev["status"]
        elif ev["kind"] == "crash":
            execs[ev["serial"]]["end"] = ev
            execs[ev["serial"]]["crashed"] = True
    return [execs[s] for s in order]


def merged_attempts(execs):
    """Executions with the two-step object creation merged into one attempt per worker.

    A creation attempt is a pre-step execution optionally followed (same worker, same object
    root) by the installation proper.  Returns a list of attempts:
    ``{"cls", "label", "worker", "scope", "start_seq", "end_seq", "status", "parts", "creation"}``
    where ``cls`` of a creation attempt is ``"create:<object root>"``.
    """
    attempts = []
    open_pre = {}
    for ex in execs:
        st = ex["start"]
        end_seq = ex["end"]["seq"] if ex["end"] is not None else float("inf")
        if is_creation_prestep(st):
            att = {"cls": "create:" + st["object_root"], "label": "create:" + short_root(st["object_root"]),
                   "worker": st["worker"], "scope": scope_key(st), "start_seq": st["seq"], "end_seq": end_seq,
                   "status": ex["status"], "parts": [ex], "creation": True, "start": st}
            attempts.append(att)
            # the runner treats every status but FAIL and ERROR as "go on with the installation"
            if ex["status"] not in ("FAIL", "ERROR", None):
                open_pre[(st["worker"], st["object_root"])] = att
        elif is_creation_main(st):
            att = open_pre.pop((st["worker"], st["object_root"]), None)
            if att is None:
                att = {"cls": "create:" + st["object_root"], "label": "create:" + short_root(st["object_root"]),
                       "worker": st["worker"], "scope": scope_key(st), "start_seq": st["seq"], "end_seq": end_seq,
                       "status": ex["status"], "parts": [ex], "creation": True, "start": st, "no_prestep": True}
                attempts.append(att)
            else:
                att["parts"].append(ex)
                att["end_seq"] = end_seq
                att["status"] = ex["status"]
                att["scope"] = scope_key(st)
        else:
            attempts.append({"cls": st["cls"], "label": st["label"], "worker": st["worker"],
                             "scope": scope_key(st), "start_seq": st["seq"], "end_seq": end_seq,
                             "status": ex["status"], "parts": [ex], "creation": False, "start": st})
    return attempts


def root_vm_oid(object_root):
    """``image1_vm1-<variant>`` (what a creation step is the root of) -> ``vm1-<variant>``."""
    suffix, _, variant = object_root.partition("-")
    return suffix.split("_")[-1] + "-" + variant


def short_root(object_root):
    m = re.search(r"(CentOS|Fedora|Win10|Win7|Ubuntu|Kali|V[ABC]\d*)", object_root)
    return object_root.split("-")[0] + ("[" + m.group(1) + "]" if m else "")


def configured(history, epoch, key, default=None):
    scen = history["scenario"]
    params = dict(scen.get("params", {}))
    epochs = scen.get("epochs") or [{}]
    if epoch < len(epochs):
        params.update(epochs[epoch].get("params", {}))
        if epochs[epoch].get("replay") is not None:
            params["replay"] = epochs[epoch]["replay"]
    return params.get(key, default)


def numeric(value, default):
    try:
        return int(float(value))
    except (TypeError, ValueError):
        return default


# --------------------------------------------------------------------------------------------
# C04
# --------------------------------------------------------------------------------------------

def check_C04(history):
    out = []
    for epoch, events in epochs_of(history).items():
        max_tries = numeric(configured(history, epoch, "max_tries"), 1)
        limit = numeric(configured(history, epoch, "max_concurrent_tries"), max_tries)
        limit = max(limit, 1)
        attempts = merged_attempts(executions(events))
        # re-entrancy must not have been granted in these families (durations within budget)
        for att in attempts:
            st = att["start"]
            granted = numeric(st.get("max_concurrent_tries"), None)
            conf = numeric(configured(history, epoch, "max_concurrent_tries"), None)
            if granted is not None and granted != conf:
                out.append(V("C04", "reentrancy-granted",
                             f"reentrancy granted without overrun for {att['label']}",
                             cls=att["cls"], worker=att["worker"], seq=st["seq"], value=granted,
                             configured=conf))
        groups = {}
        for att in attempts:
            groups.setdefault((att["cls"], att["scope"]), []).append(att)
        for (cls, scope), atts in groups.items():
            points = []
            for att in atts:
                points.append((att["start_seq"], 1, att))
                points.append((att["end_seq"], -1, att))
            points.sort(key=lambda p: (p[0], p[1]))
            level, worst = 0, 0
            live = []
            for seq, delta, att in points:
                if delta > 0:
                    live.append(att)
                else:
                    live.remove(att)
                level += delta
                if level > limit and level > worst:
                    worst = level
                    workers = sorted(a["worker"] for a in live)
                    out.append(V("C04", "overlap",
                                 f"more simultaneous executions of {atts[0]['label']} than allowed (limit {limit}, scope {scope[0]})",
                                 cls=cls, scope=scope, workers=workers, at_seq=seq, limit=limit, level=level))
        # back-off clause: after meeting an occupied node the worker sleeps a bounded period
        test_timeout = numeric(configured(history, epoch, "test_timeout"), 3600)
        for ev in events:
            if ev["kind"] == "sleep.graph":
                bound = max(test_timeout * max(max_tries, 1) / 1000.0, 0.1)
                # per-node values of test_timeout may be larger (install: 3600)
                bound = max(bound, 3600 * max(max_tries, 1) / 1000.0)
                if not (0 < ev["delay"] <= bound + 1e-9):
                    out.append(V("C04", "backoff-period", f"back-off of {ev['delay']}s outside (0, {bound}]",
                                 worker=ev["worker"], seq=ev["seq"]))
    return dedup(out)


# --------------------------------------------------------------------------------------------
# C03
# --------------------------------------------------------------------------------------------

def check_C03(history):
    out = []
    for epoch, events in epochs_of(history).items():
        max_tries = numeric(configured(history, epoch, "max_tries"), 1)
        replay = configured(history, epoch, "replay")
        if replay and configured(history, epoch, "max_tries") is None:
            max_tries = 2
        budget = max(1, max_tries)
        attempts = merged_attempts(executions(events))
        groups = {}
        for att in attempts:
            groups.setdefault((att["cls"], att["scope"]), []).append(att)
        for (cls, scope), atts in groups.items():
            if len(atts) > budget:
                out.append(V("C03", "budget",
                             f"{atts[0]['label']} executed more often than the budget (scope {scope[0]})",
                             cls=cls, scope=scope, count=len(atts), budget=budget,
                             workers=[a["worker"] for a in atts], statuses=[a["status"] for a in atts]))
        # a setup class whose states were all present at the first examination in a scope is not executed
        first_check = {}
        for ev in events:
            if ev["kind"] == "door.check":
                # scope of the examining worker under the same rule as executions
                fake = {"pool_scope": ev["reqs"][0]["scope"] if ev["reqs"] else "", "worker": ev["worker"],
                        "spawner": worker_spawner(history, events, ev["worker"])}
                key = (ev["cls"], scope_key(fake))
                if key not in first_check:
                    first_check[key] = ev
        for att in attempts:
            if att["creation"]:
                continue
            key = (att["cls"], att["scope"])
            chk = first_check.get(key)
            if chk is not None and chk["answer"] and chk["seq"] < att["start_seq"]:
                narrower = [o for o in attempts if o["cls"] == att["cls"] and o["start_seq"] < att["start_seq"]
                            and o["scope"] != att["scope"]]
                if att["scope"] == ("global",) and narrower:
                    # known defect of mixed worker kinds under a narrowed pool_scope: this worker's own rule says it
                    # shares with everybody, the other worker's rule says it does not; the other scope's try is
                    # counted as a try of this scope and a "retry" is run although the states were found
                    out.append(V("C03", "present-but-executed/asymmetric-scopes",
                                 f"{att['label']} executed although its states were all present when first examined: the try of a worker "
                                 f"of another (narrower) reuse scope was counted as its own",
                                 cls=att["cls"], worker=att["worker"], other=narrower[0]["worker"], other_scope=narrower[0]["scope"]))
                    continue
                out.append(V("C03", "present-but-executed",
                             f"{att['label']} executed although its states were all present when first examined",
                             cls=att["cls"], worker=att["worker"], check_seq=chk["seq"], start_seq=att["start_seq"]))
        # never executed: clone sources and flat nodes (observed as executions without objects / vms)
        for att in attempts:
            st = att["start"]
            if not st.get("vms"):
                out.append(V("C03", "flat-executed", f"a test without objects was executed: {att['label']}",
                             cls=att["cls"]))
    for ending in history["endings"]:
        if ending.get("how") == "raised" and "Cannot run test nodes not using any test objects" in (ending.get("error") or ""):
            out.append(V("C03", "flat-executed", "a flat test node reached the runner", error=ending["error"]))
    return dedup(out)


def worker_spawner(history, events, wid):
    for ev in events:
        if ev["kind"] == "start" and ev["worker"] == wid:
            return ev.get("spawner")
    # not executed anything yet: derive from the worker id as the configuration documents
    if wid == "net0":
        return "process"
    if "." in wid:
        return "remote"
    return "lxc"


# --------------------------------------------------------------------------------------------
# C01
# --------------------------------------------------------------------------------------------

def check_C01(history):
    out = []
    for epoch, events in epochs_of(history).items():
        execs = executions(events)
        by_serial = {ex["start"]["serial"]: ex for ex in execs}
        for ex in execs:
            st = ex["start"]
            for need in st["needs"]:
                if need["available"] or need["permanent"]:
                    continue
                if need.get("get_mode", "ra")[1:2] != "a":
                    continue
                # exemption: the producer of this state, or the creation step of the object, was
                # attempted in this epoch by a worker of the same reuse scope and did not pass
                if exempt_by_failed_producer(execs, st, need):
                    continue
                vm_os = short_root(need["obj"])
                blocked = instructed_but_not_allowed(execs, st, need)
                if blocked:
                    out.append(V("C01", "missing-state/instructed-source-not-in-scope",
                                 f"{st['label']} started without {need['type']} state {need['state']} of {vm_os}: the worker that produced it "
                                 f"is named as a source but its {blocked[1]} scope is not enabled",
                                 cls=st["cls"], worker=st["worker"], producer=blocked[0], source_class=blocked[1],
                                 scope=need["scope"], spawner=st.get("spawner"), seq=st["seq"], epoch=epoch))
                    continue
                residue = own_pool_residue(events, st, need)
                if residue:
                    # the only holder of the state is another worker's own pool, found there by that
                    # worker's scan, and nobody is told: a separately classified (known) defect
                    out.append(V("C01", "missing-state/own-pool-residue",
                                 f"{st['label']} started without {need['type']} state {need['state']} of {vm_os} "
                                 f"which only another worker's own pool holds",
                                 cls=st["cls"], worker=st["worker"], holder=residue, seq=st["seq"], epoch=epoch,
                                 obj=need["obj"], state=need["state"], locations=need["locations"]))
                    continue
                out.append(V("C01", "missing-state",
                             f"{st['label']} started without {need['type']} state {need['state']} of {vm_os}",
                             cls=st["cls"], worker=st["worker"], seq=st["seq"], epoch=epoch,
                             obj=need["obj"], state=need["state"], locations=need["locations"],
                             scope=need["scope"]))
    return dedup(out)


def source_class(me, other):
    """Documented proximity of another worker's pool (ids: netN on localhost, clusterK.netN remote)."""
    gw = lambda w: w.split(".")[0] if "." in w else ""
    if gw(me) != gw(other):
        return "cluster"
    return "swarm" if me != other else "own"


def instructed_but_not_allowed(execs, st, need):
    """A listed source worker passed the producer in this epoch, but its scope class is disabled."""
    scopes = need["scope"].split()
    for loc in need["locations"].split():
        net, _, _ = loc.partition(":")
        if not net or net == st["worker"]:
            continue
        cls = source_class(st["worker"], net)
        if cls in scopes:
            continue
        # the known defect is the coarse rule by which the traversal shares setup (serial workers: with everybody;
        # remote workers: with their swarm; lxc workers with the swarm scope: with everybody); setup taken over from a
        # worker outside of that rule is not covered by it
        if not traversal_shares(st, net):
            continue
        for ex in execs:
            pst = ex["start"]
            if pst["worker"] == net and ex["status"] == "PASS" and ex["end"] is not None and ex["end"]["seq"] < st["seq"] \
                    and any(s_["obj"] == need["obj"] and s_["state"] == need["state"] for s_ in pst["sets"]):
                return (net, cls)
    return None


def traversal_shares(st, producer):
    """Does the traversal's own reuse rule let the worker of ``st`` take over setup finished by ``producer``?"""
    scopes = (st.get("pool_scope") or "").split()
    swarm_of = lambda wid: wid.split(".")[0] if "." in wid else "localhost"
    if st.get("spawner") == "lxc" and "swarm" not in scopes:
        return producer == st["worker"]
    if st.get("spawner") == "remote" and "cluster" not in scopes:
        return swarm_of(producer) == swarm_of(st["worker"])
    return True


def own_pool_residue(events, st, need):
    """Worker whose scan found the needed state in its own pool only (before this start), if any."""
    for ev in events:
        if ev["seq"] >= st["seq"]:
            break
        if ev["kind"] != "door.check" or ev["worker"] == st["worker"]:
            continue
        for r in ev["reqs"]:
            if r["obj"] == need["obj"] and r["state"] == need["state"] and r.get("found") == "own":
                return ev["worker"]
    return None


def exempt_by_failed_producer(execs, st, need):
    vm_oid = need["obj"].split("/")[0]
    my_scope = None
    for ex in execs:
        pst = ex["start"]
        if pst["seq"] >= st["seq"]:
            break
        produced = any(s["obj"] == need["obj"] and s["state"] == need["state"] for s in pst["sets"])
        creation = bool(pst.get("object_root")) and root_vm_oid(pst["object_root"]) == vm_oid
        if not (produced or creation):
            continue
        # did not pass, as known at the start of the dependant (still running counts as not passed yet,
        # but then the dependant must not have started: no exemption)
        if ex["end"] is None or ex["end"]["seq"] > st["seq"]:
            continue
        if ex["status"] == "PASS" or ex["status"] == "WARN":
            continue
        # same reuse scope: judged with the producer's own scope rule applied to both workers
        a = scope_key(pst)
        b = scope_key({"pool_scope": pst.get("pool_scope"), "spawner": st.get("spawner"), "worker": st["worker"]})
        if a != b:
            continue
        return True
    return False


# --------------------------------------------------------------------------------------------
# C02
# --------------------------------------------------------------------------------------------

TRAVERSAL_ERRORS = ("Discontinuous path", "Unfinished traverse path", "Picked a child", "Picked a parent",
                    "should not try to run", "should not try to clean", "should not consider rerunning",
                    "There can be only exactly one starting node")


def check_C02(history, expected_tests=None, expected_combos=None):
    out = []
    scen = history["scenario"]
    epochs = scen.get("epochs") or [{}]
    for ending in history["endings"]:
        epoch = ending["epoch"]
        how = ending["how"]
        cfg = epochs[epoch] if epoch < len(epochs) else {}
        if how == "crashed":
            continue
        if how in ("deadlock", "step-budget", "vtime-budget", "spin", "exec-budget"):
            out.append(V("C02", "no-termination", f"traversal did not terminate ({how})",
                         epoch=epoch, steps=ending["steps"], vtime=ending["vtime"], error=ending["error"],
                         last=last_executions(history, epoch)))
            continue
        if how == "raised":
            if scen.get("expect_value_error") and ending.get("error_type") == "ValueError":
                continue
            if ending.get("error_type") == "EmptyCartesianProduct" and not any(
                    ev["kind"] == "worker.begin" and ev["epoch"] == epoch for ev in history["events"]):
                # the selection was rejected while parsing, before any traversal: not C02's business
                continue
            out.append(V("C02", "traversal-error",
                         f"traversal raised {ending.get('error_type')}: {strip_ids(ending.get('error') or '')[:120]}",
                         epoch=epoch, error=ending["error"], traceback=ending.get("traceback")))
            continue
        if ending.get("pending_tasks"):
            out.append(V("C02", "pending-tasks", "tasks left pending after the run", epoch=epoch,
                         n=ending["pending_tasks"]))
        events = [ev for ev in history["events"] if ev["epoch"] == epoch]
        begun = {ev["worker"] for ev in events if ev["kind"] == "worker.begin"}
        ended = {ev["worker"] for ev in events if ev["kind"] == "worker.end"}
        if begun != ended:
            out.append(V("C02", "worker-not-back", "a worker did not return to the starting point",
                         epoch=epoch, workers=sorted(begun - ended)))
        dry = str(configured(history, epoch, "dry_run", "no")) == "yes"
        starts = [ev for ev in events if ev["kind"] == "start"]
        if dry:
            if starts:
                out.append(V("C02", "dry-run-executed", "a dry run executed a test", epoch=epoch,
                             label=starts[0]["label"]))
            changed = [ev for ev in events if ev["kind"] in ("door.unset", "door.get", "door.set")]
            if changed:
                out.append(V("C02", "dry-run-changed-state", "a dry run changed states", epoch=epoch,
                             kind=changed[0]["kind"]))
        else:
            for r in ending.get("node_results", []):
                if r["status"] not in DEFINITE:
                    out.append(V("C02", "indefinite-status",
                                 f"{short(r['name'])} is left with status {r['status']}",
                                 epoch=epoch, name=r["name"], status=r["status"]))
            if expected_tests is not None:
                # a test is the same test through whichever test set it was selected or found as a dependency
                from travsim.resolver import strip_set
                started_names = [strip_set(ev["name"]) for ev in starts]
                found_present = {strip_set(ev["name_head"]) for ev in events if ev["kind"] == "door.check" and ev["answer"]}
                for flat_named in expected_tests.get(epoch, expected_tests.get("*", [])):
                    flat = strip_set(flat_named)
                    if flat in found_present:
                        continue  # a selected test that only produces states which all exist already is skipped (C03)
                    if not any(n.startswith(flat + ".") for n in started_names):
                        out.append(V("C02", "not-executed", f"selected test {flat} was never executed",
                                     epoch=epoch, test=flat))
                for flat, tokens in (expected_combos or []):
                    flat = strip_set(flat)
                    if flat in found_present:
                        continue
                    if not any(n.startswith(flat + ".") and all(f".{vm}.{tok}." in n for vm, tok in tokens.items())
                               for n in started_names):
                        out.append(V("C02", "variant-not-executed",
                                     f"selected test {flat} was never executed for a compatible vm variant combination",
                                     epoch=epoch, test=flat, variants=tokens))
    return dedup(out)


def short(name):
    from travsim.harness import short_class
    return short_class(name)


def strip_ids(text):
    return re.sub(r"net\d+|cluster\d+", "@", text)


def last_executions(history, epoch, n=6):
    evs = [ev for ev in history["events"] if ev["epoch"] == epoch and ev["kind"] in ("start", "end")]
    return [(ev["kind"], ev["worker"], ev["label"], ev.get("status")) for ev in evs[-n:]]


# --------------------------------------------------------------------------------------------
# C05
# --------------------------------------------------------------------------------------------

def check_C05(history):
    out = []
    for epoch, events in epochs_of(history).items():
        execs = executions(events)
        pool_filter = configured(history, epoch, "pool_filter", "reuse")
        # what every executed test says about the states it produces
        producer_mode = {}
        for ex in execs:
            for s_ in ex["start"]["sets"]:
                producer_mode.setdefault((s_["obj"], s_["state"]), set()).add(s_["unset_mode"])
        for ev in events:
            if ev["kind"] == "door.get" and pool_filter in ("reuse", "block"):
                out.append(V("C05", "sync-with-default-filter",
                             f"a state was copied while backing out of {ev['label']} although the pool filter is {pool_filter}",
                             worker=ev["worker"], seq=ev["seq"]))
            if ev["kind"] != "door.unset":
                continue
            for r in ev["reqs"]:
                item = (r["obj"], r["state"])
                vm_os = short_root(r["obj"])
                if (r["mode"] or "")[0:1] != "f":
                    if r.get("removed"):
                        out.append(V("C05", "removed-unmarked",
                                     f"state {r['state']} of {vm_os} was removed although it is not marked for removal",
                                     seq=ev["seq"], mode=r["mode"]))
                    continue
                modes = producer_mode.get(item)
                if modes is not None and not any(m[0:1] == "f" for m in modes):
                    out.append(V("C05", "unset-unmarked",
                                 f"removal of state {r['state']} of {vm_os} was requested although its producer does not mark it",
                                 seq=ev["seq"], modes=sorted(modes), request_mode=r["mode"]))
                # nobody of the same reuse scope may be producing or using the state at this instant ...
                node_scope = configured(history, epoch, "pool_scope", "own swarm cluster shared")
                my_scope = scope_key({"pool_scope": node_scope, "worker": ev["worker"],
                                      "spawner": worker_spawner(history, events, ev["worker"])})
                for ex in execs:
                    st = ex["start"]
                    if scope_key({"pool_scope": node_scope, "worker": st["worker"], "spawner": st.get("spawner")}) != my_scope:
                        continue  # another reuse scope keeps its own copies of the state
                    end_seq = ex["end"]["seq"] if ex["end"] is not None else float("inf")
                    uses = any(n["obj"] == r["obj"] and n["state"] == r["state"] for n in st["needs"])
                    makes = any(s_["obj"] == r["obj"] and s_["state"] == r["state"] for s_ in st["sets"])
                    if not (uses or makes):
                        continue
                    if st["seq"] < ev["seq"] < end_seq:
                        what = "dependant" if uses else "producer"
                        out.append(V("C05", "unset-while-running",
                                     f"removal of state {r['state']} of {vm_os} was requested while a {what} was running",
                                     seq=ev["seq"], by=ev["worker"], running=st["label"], on=st["worker"]))
                    # ... and no dependant may still be pending (start later without the state being produced again)
                    if uses and st["seq"] > ev["seq"]:
                        reproduced = any(
                            o["end"] is not None and ev["seq"] < o["end"]["seq"] < st["seq"] and o["status"] == "PASS"
                            and any(s_["obj"] == r["obj"] and s_["state"] == r["state"] for s_ in o["start"]["sets"])
                            for o in execs)
                        if not reproduced:
                            out.append(V("C05", "unset-before-dependant",
                                         f"removal of state {r['state']} of {vm_os} was requested before a dependant started",
                                         seq=ev["seq"], by=ev["worker"], dependant=st["label"], on=st["worker"],
                                         dependant_seq=st["seq"]))
    return dedup(out)


# --------------------------------------------------------------------------------------------
# C08
# --------------------------------------------------------------------------------------------

def check_C08(history, worker_table=None):
    """Right worker, right access parameters, right sources."""
    out = []
    for epoch, events in epochs_of(history).items():
        execs = executions(events)
        ended = []
        for ev in events:
            if ev["kind"] == "end":
                ended.append(ev)
            if ev["kind"].startswith("door.") and ev.get("params_worker") and ev["params_worker"] != ev["worker"]:
                out.append(V("C08", "wrong-connection", "state control of a test went over the connection of another worker than the one "
                             "its parameters name", test=ev["label"], connection=ev["worker"], named=ev["params_worker"], seq=ev["seq"]))
            if ev["kind"] != "start":
                continue
            st = ev
            wid = st["worker"]
            access = st["access"]
            if st.get("executed_on") not in (None, wid):
                out.append(V("C08", "wrong-connection", f"{st['label']} was sent over the connection of another worker than its own",
                             worker=wid, executed_on=st["executed_on"], seq=st["seq"]))
            if access.get("nets") != wid.split(".")[-1] and access.get("nets") != wid:
                out.append(V("C08", "wrong-worker", f"{st['label']} parsed for another worker than the one running it",
                             worker=wid, nets=access.get("nets"), seq=st["seq"]))
            if wid not in st["name"]:
                out.append(V("C08", "wrong-worker", f"{st['label']} parsed for another worker than the one running it",
                             worker=wid, name=st["name"], seq=st["seq"]))
            if worker_table and wid in worker_table:
                mine = worker_table[wid]
                for key, value in mine["access"].items():
                    if key == "nets":
                        continue  # the test's ``nets`` is the worker id itself, checked above
                    if access.get(key) != value:
                        out.append(V("C08", "wrong-access", f"{st['label']} runs with foreign connection parameter {key}",
                                     worker=wid, key=key, got=access.get(key), want=value, seq=st["seq"]))
                # the vm variants of the test must satisfy the worker's restrictions
                for vm, allowed in mine.get("only", {}).items():
                    m = re.search(r"\.vms\." + vm + r"\.(.*?)(?:\.nets\.|$)", st["name"])
                    if vm in st["vms"].split() and m and not any(tok in m.group(1).split(".") for tok in allowed):
                        out.append(V("C08", "excluded-by-restriction", f"{st['label']} runs on a worker whose restrictions exclude it",
                                     worker=wid, vm=vm, allowed=allowed, seq=st["seq"]))
                for vm, banned in mine.get("no", {}).items():
                    m = re.search(r"\.vms\." + vm + r"\.(.*?)(?:\.nets\.|$)", st["name"])
                    if vm in st["vms"].split() and m and any(tok in m.group(1).split(".") for tok in banned):
                        out.append(V("C08", "excluded-by-restriction", f"{st['label']} runs on a worker whose restrictions exclude it",
                                     worker=wid, vm=vm, banned=banned, seq=st["seq"]))
            # sources: listed non-shared sources == workers with a PASS of the producer so far
            replayed = replayed_passers(history, epoch)
            for need in st["needs"]:
                if need["permanent"]:
                    continue
                listed = set()
                shared_listed = False
                for loc in need["locations"].split():
                    net, _, path = loc.partition(":")
                    if net:
                        listed.add(net)
                    else:
                        shared_listed = True
                producers, own_producers = set(), set()
                for e in ended:
                    pst = next(x["start"] for x in execs if x["start"]["serial"] == e["serial"])
                    if e["status"] in ("PASS", "WARN") and any(s["obj"] == need["obj"] and s["state"] == need["state"] for s in pst["sets"]):
                        producers.add(e["worker"])
                        # the setup test of this test is the producer on the same variants of the vms they share; another
                        # variant combination that happens to leave the same state of the same object is not its setup
                        if same_shared_variants(pst["name"], st["name"]):
                            own_producers.add(e["worker"])
                extra = listed - producers
                # replayed previous results legitimately name their workers
                extra = {w for w in extra if (w, need["obj"], need["state"]) not in replayed and not replayed_any(replayed, w)}
                if extra:
                    out.append(V("C08", "spurious-source",
                                 f"{st['label']} is told to fetch {need['state']} from a worker that did not produce it",
                                 worker=wid, listed=sorted(listed), producers=sorted(producers), seq=st["seq"]))
                missing = own_producers - listed
                if missing:
                    out.append(V("C08", "missing-source",
                                 f"{st['label']} is not told about a worker that produced {need['state']}",
                                 worker=wid, listed=sorted(listed), producers=sorted(producers), seq=st["seq"]))
                if not shared_listed:
                    out.append(V("C08", "no-shared-source", f"{st['label']} is not given the shared pool for {need['state']}",
                                 worker=wid, seq=st["seq"]))
                if worker_table:
                    for src in listed:
                        want = worker_table.get(src, {}).get("access", {})
                        for key, value in want.items():
                            if key == "nets":
                                continue
                            if access.get(f"{key}_{src}") != value:
                                out.append(V("C08", "wrong-source-access",
                                             f"{st['label']} is given wrong access parameter {key} for source worker",
                                             worker=wid, src=src, key=key, got=access.get(f"{key}_{src}"), want=value,
                                             seq=st["seq"]))
    return dedup(out)


def vm_variants_of(name):
    """vm -> variant part of a full test name ('.vms.vm1.<variant>.nets...vm2.<variant>...')."""
    out = {}
    tail = name.split(".vms.", 1)[1] if ".vms." in name else ""
    for m in re.finditer(r"(?:^|\.)(vm\d+)\.(.*?)\.nets\.", tail):
        out[m.group(1)] = m.group(2)
    return out


def same_shared_variants(producer_name, consumer_name):
    a, b = vm_variants_of(producer_name), vm_variants_of(consumer_name)
    return all(a[vm] == b[vm] for vm in a if vm in b)


def replayed_passers(history, epoch):
    """(worker, obj, state) triples that a replayed previous job lets the traversal name."""
    scen = history["scenario"]
    epochs = scen.get("epochs") or [{}]
    cfg = epochs[epoch] if epoch < len(epochs) else {}
    out = set()
    if cfg.get("replay") is None:
        return out
    wanted = str(cfg["replay"]).split()
    for ev in history["events"]:
        if ev["kind"] == "end" and f"job{ev['epoch']}" in wanted and ev["status"] in ("PASS", "WARN") and not ev.get("lost"):
            out.add((ev["worker"], None, None))
    return out


def replayed_any(replayed, worker):
    return any(w == worker for (w, _, _) in replayed)


# --------------------------------------------------------------------------------------------

def dedup(violations):
    seen, out = set(), []
    for v in violations:
        key = (v["property"], v["oracle"], v["signature"])
        if key not in seen:
            seen.add(key)
            out.append(v)
    return out


# --------------------------------------------------------------------------------------------
# C10
# --------------------------------------------------------------------------------------------

ALL_STATUSES = ["fail", "error", "pass", "warn", "skip", "cancel", "interrupted", "unknown"]


def retry_settings(history, epoch):
    """The documented retry settings in force (valid settings only)."""
    replay = configured(history, epoch, "replay")
    raw_tries = configured(history, epoch, "max_tries")
    max_tries = int(raw_tries) if raw_tries is not None else (2 if replay else 1)
    raw_rerun = configured(history, epoch, "rerun_status")
    if replay:
        rerun = [s for s in (raw_rerun if raw_rerun is not None else "fail,error,warn").split(",") if s]
    else:
        rerun = (raw_rerun or "").split() or list(ALL_STATUSES)
    stop = (configured(history, epoch, "stop_status") or "").split()
    return max_tries, set(rerun), set(stop)


def again(statuses, max_tries, rerun, stop):
    """The documented rule: try again while tries remain, all statuses in rerun, none in stop.

    Executions still in flight ("unknown") use up tries but have no status yet: whether they
    block a concurrent try is left open by the documentation, so they never make a try unowed.
    """
    completed = [s for s in statuses if s != "unknown"]
    if set(completed) - rerun:
        return False
    if set(completed) & stop:
        return False
    if max_tries == 1:
        return False
    return max_tries - len(statuses) > 0


def recorded_status_by_serial(ending):
    out = {}
    for r in ending.get("node_results", []):
        if r.get("serial") is not None:
            out.setdefault(r["serial"], []).append(r["status"])
    return out


def check_C10(history):
    out = []
    scen = history["scenario"]
    epochs_cfg = scen.get("epochs") or [{}]
    endings = {e["epoch"]: e for e in history["endings"]}
    by_epoch = epochs_of(history)
    for epoch, events in by_epoch.items():
        ending = endings.get(epoch)
        if ending is None:
            continue
        invalid = scen.get("expect_value_error")
        execs = executions(events)
        if ending["how"] == "raised" and ending.get("error_type") == "EmptyCartesianProduct" and not any(
                ev["kind"] == "worker.begin" for ev in events):
            continue  # the selection itself was rejected while parsing
        if invalid:
            ok = ending["how"] == "raised" and ending.get("error_type") == "ValueError"
            if not ok:
                out.append(V("C10", "invalid-accepted", f"invalid retry settings were not rejected ({invalid})",
                             how=ending["how"], error=ending.get("error")))
            # nothing may be executed again once an execution of it has ended (that is where the
            # settings are evaluated); simultaneous first tries by several workers are not retries
            atts = merged_attempts(execs)
            for att in atts:
                if any(o["cls"] == att["cls"] and o["end_seq"] < att["start_seq"] for o in atts):
                    out.append(V("C10", "invalid-retried",
                                 f"{att['label']} was repeated under invalid retry settings ({invalid})"))
            continue
        if ending["how"] not in ("completed", "crashed"):
            continue  # termination problems are C02's business
        max_tries, rerun, stop = retry_settings(history, epoch)
        recorded = recorded_status_by_serial(ending)

        # (a) distinct identifiers among the executions of one (worker specific) test name
        seen = {}
        for ex in execs:
            st = ex["start"]
            key = (st["name"], st["uid"])
            if key in seen:
                out.append(V("C10", "duplicate-uid",
                             f"repeated executions of {st['label']} carry the same identifier",
                             name=st["name"], uid=st["uid"], serials=[seen[key], st["serial"]]))
            else:
                seen[key] = st["serial"]

        # (b) each execution reads its own result
        if ending["how"] == "completed":
            for ex in execs:
                st, end = ex["start"], ex["end"]
                if end is None or ex["crashed"]:
                    continue
                if is_creation_prestep(st):
                    continue  # the configuration step is not a node of the graph; its failure is kept with the root
                got = recorded.get(st["serial"], [])
                if end.get("lost"):
                    continue
                if len(got) != 1:
                    out.append(V("C10", "foreign-result",
                                 f"an execution of {st['label']} did not record its own result exactly once",
                                 serial=st["serial"], recorded=got, assigned=end["status"]))
                    continue
                if got[0] != end["status"] and not (end["status"] == "PASS" and got[0] == "WARN"):
                    out.append(V("C10", "wrong-status",
                                 f"an execution of {st['label']} recorded another status than it ended with",
                                 serial=st["serial"], recorded=got[0], assigned=end["status"]))

        # (c) the retry rule, per (class, reuse scope)
        prev = previous_results(history, epoch)
        attempts = merged_attempts(execs)
        groups = {}
        for att in attempts:
            stateful = bool(att["start"]["sets"]) or att["creation"]
            scope = att["scope"] if stateful else ("global",)
            groups.setdefault((att["cls"], scope), []).append(att)
        for (cls, scope), atts in groups.items():
            atts.sort(key=lambda a: a["start_seq"])
            stateful = bool(atts[0]["start"]["sets"]) or atts[0]["creation"]
            previous = [s for (c, w, s) in prev if same_class(c, cls) and in_scope(w, scope)]
            for i, att in enumerate(atts):
                # what the deciding worker could know when this attempt started
                known = list(previous)
                for other in atts[:i]:
                    if other["end_seq"] < att["start_seq"]:
                        known.append(recorded_attempt_status(other, recorded))
                    else:
                        known.append("unknown")
                if i == 0 and not known:
                    continue  # first execution: decided by the selection / the state scan
                if stateful and not any(o["end_seq"] < att["start_seq"] for o in atts[:i]):
                    # nobody of the scope finished it yet: decided by the state scan
                    # (a missing state overrides previous results)
                    continue
                if not again(known, max_tries, rerun, stop):
                    out.append(V("C10", "unowed-retry",
                                 f"{att['label']} was executed again although the retry rule forbids it",
                                 cls=cls, scope=scope, known=known, max_tries=max_tries, rerun=sorted(rerun),
                                 stop=sorted(stop), worker=att["worker"], seq=att["start_seq"]))
            if ending["how"] == "completed" and not dry_run(history, epoch):
                final = list(previous) + [recorded_attempt_status(a, recorded) for a in atts]
                if again(final, max_tries, rerun, stop):
                    out.append(V("C10", "dropped-retry",
                                 f"{atts[0]['label']} was not executed again although the retry rule demands it",
                                 cls=cls, scope=scope, statuses=final, max_tries=max_tries, rerun=sorted(rerun),
                                 stop=sorted(stop)))
        # replay: a class with an acceptable previous result and nothing missing is not executed
        if configured(history, epoch, "replay"):
            for (c, w, s) in prev:
                pass  # covered by (c): a first execution with previous results obeys ``again``
            for (cls, scope), atts in groups.items():
                stateful = bool(atts[0]["start"]["sets"]) or atts[0]["creation"]
                previous = [s for (c, w, s) in prev if same_class(c, cls) and in_scope(w, scope)]
                if previous and not stateful and not again(previous, max_tries, rerun, stop):
                    out.append(V("C10", "replay-reexecuted",
                                 f"{atts[0]['label']} has an acceptable previous result but was executed again",
                                 cls=cls, previous=previous))
            # a stateless test without an acceptable previous result (and tries left) is executed
            if ending["how"] == "completed" and not dry_run(history, epoch):
                executed = {cls for (cls, scope) in groups}
                seen_prev = {}
                for (c, w, s) in prev:
                    seen_prev.setdefault(c, []).append(s)
                stateless_prev = stateless_classes(history)
                for c, statuses in seen_prev.items():
                    if c in executed or c not in stateless_prev:
                        continue
                    if again(statuses, max_tries, rerun, stop):
                        out.append(V("C10", "replay-not-executed",
                                     f"{short(c)} has no acceptable previous result but was not executed again",
                                     cls=c, previous=statuses, max_tries=max_tries))
        # (d) verdict
        if ending["how"] == "completed" and isinstance(ending.get("all_results_ok"), bool):
            by_name = {}
            for r in ending.get("results", []):
                by_name.setdefault(r["name"], []).append(r["status"])
            want = all(any(OK_STATUS.get(s, False) for s in sts) for sts in by_name.values())
            if want != ending["all_results_ok"]:
                out.append(V("C10", "wrong-verdict", "the run verdict disagrees with the executed tests' results",
                             verdict=ending["all_results_ok"], expected=want,
                             failing=[n for n, sts in by_name.items() if not any(OK_STATUS.get(s, False) for s in sts)][:3]))
    return dedup(out)


def dry_run(history, epoch):
    return str(configured(history, epoch, "dry_run", "no")) == "yes"


def same_class(previous_cls, cls):
    """Does a previous result's class belong to this group (creation groups: the object root node)."""
    if cls.startswith("create:"):
        variant = cls[len("create:"):].partition("-")[2]
        return re.search(r"(\.|^)original(\.|$)", previous_cls) is not None and ("." + variant + ".") in previous_cls
    return previous_cls == cls


def stateless_classes(history):
    """Classes seen executing without producing any state (in any epoch)."""
    out = set()
    for ev in history["events"]:
        if ev["kind"] == "start" and not ev["sets"] and not ev.get("object_root"):
            out.add(ev["cls"])
    return out


def recorded_attempt_status(att, recorded):
    """Status the traversal recorded for an attempt (a creation attempt: its last part)."""
    last = att["parts"][-1]
    got = recorded.get(last["start"]["serial"])
    if got:
        return got[0].lower()
    if last["end"] is not None and last["end"].get("lost"):
        return "error"
    return (last["status"] or "unknown").lower()


def in_scope(worker, scope):
    if scope[0] == "global":
        return True
    if scope[0] == "worker":
        return worker == scope[1]
    swarm = worker.split(".")[0] if "." in worker else "localhost"
    return swarm == scope[1]


def previous_results(history, epoch):
    """(class, worker, status) of the results a replayed job left behind."""
    from travsim.harness import test_class
    scen = history["scenario"]
    epochs_cfg = scen.get("epochs") or [{}]
    cfg = epochs_cfg[epoch] if epoch < len(epochs_cfg) else {}
    out = []
    if cfg.get("replay") is None:
        return out
    wanted = str(cfg["replay"]).split()
    for ending in history["endings"]:
        if f"job{ending['epoch']}" in wanted:
            for r in ending.get("results", []):
                m = re.search(r"\.nets\.([A-Za-z0-9_]+)\.([A-Za-z0-9_]+)", r["name"])
                worker = None
                if m:
                    worker = m.group(2) if m.group(1) == "localhost" else m.group(1) + "." + m.group(2)
                from travsim.resolver import strip_set
                out.append((strip_set(test_class(r["name"])), worker, r["status"].lower()))
    return out


# --------------------------------------------------------------------------------------------
# C06, C09, C16: judged on the live graph during the run (travsim.graphcheck), collected here
# --------------------------------------------------------------------------------------------

def _graph_property(prop):
    def check(history, **kw):
        out = [v for v in history.get("graph_violations", []) if v["property"] == prop]
        for ending in history["endings"]:
            if ending["how"] == "raised" and ending.get("error_type") != "EmptyCartesianProduct":
                out.append(V(prop, "run-raised", f"the run raised {ending.get('error_type')}: {strip_ids(ending.get('error') or '')[:100]}",
                             error=ending.get("error"), traceback=ending.get("traceback")))
        return dedup(out)
    return check


check_C06 = _graph_property("C06")
check_C09 = _graph_property("C09")
check_C16 = _graph_property("C16")
check_C07 = _graph_property("C07")


# --------------------------------------------------------------------------------------------
# C15
# --------------------------------------------------------------------------------------------

def check_C15(history, expectations=None):
    out = []
    scen = history["scenario"]
    ending = history["endings"][0]
    events = history["events"]
    invalid = any(e.get("invalid") for e in (expectations or {}).values() if e)
    if invalid:
        if ending["how"] != "raised":
            out.append(V("C15", "unknown-state-accepted", "an update from or to a state that does not exist was not rejected",
                         how=ending["how"], vms_params=scen.get("vms_params")))
        return out
    if ending["how"] != "completed":
        out.append(V("C15", "update-failed", f"the update did not complete ({ending['how']}): {strip_ids(ending.get('error') or '')[:120]}",
                     error=ending.get("error"), traceback=ending.get("traceback")))
        return out
    from travsim.resolver import strip_set, flat_part
    execs = executions(events)
    workers = scen["nets"].split()
    for vm, exp_all in (expectations or {}).items():
        if exp_all is None:
            continue
        for exp in exp_all["variants"]:
            token = exp["token"]
            marker = f".{vm}.{token}."
            # executions of this vm variant (single vm tests in an update)
            mine = [ex for ex in execs if ex["start"]["vms"].split() == [vm] and marker in ex["start"]["name"]]
            got = sorted({strip_set(flat_part(ex["start"]["name"])) for ex in mine if not is_creation_prestep(ex["start"])})
            want = sorted(set(exp["path"]))
            if got != want:
                missing, extra = sorted(set(want) - set(got)), sorted(set(got) - set(want))
                out.append(V("C15", "wrong-path",
                             f"updating {vm} " + ("did not execute a test on the requested path" if missing else "executed a test outside the requested path"),
                             vm=vm, variant=token, missing=missing, extra=extra))
            counts = {}
            for ex in mine:
                if not is_creation_prestep(ex["start"]):
                    key = strip_set(flat_part(ex["start"]["name"]))
                    counts[key] = counts.get(key, 0) + 1
            for key, n in counts.items():
                if n > 1:
                    out.append(V("C15", "repeated", f"updating {vm} executed a test of the path more than once", vm=vm, test=key, n=n))
            # removal requests per worker
            want_removed = {(typ, state) for typ, state in exp["removed"]}
            for w in workers:
                got_removed = set()
                for ev in events:
                    if ev["kind"] == "door.unset" and ev["worker"] == w:
                        for r in ev["reqs"]:
                            if r["obj"].split("/")[0].startswith(vm + "-") and f".{token}." in r["obj"] + ".":
                                got_removed.add((r["type"], r["state"]))
                if got_removed != want_removed:
                    missing, extra = sorted(want_removed - got_removed), sorted(got_removed - want_removed)
                    out.append(V("C15", "wrong-removal",
                                 f"updating {vm} " + ("did not remove a derived state" if missing else "removed a state that is not derived from the target")
                                 + " on some worker", vm=vm, variant=token, worker=w, missing=missing, extra=extra))
    # nothing of other vms
    selected = set(scen["vm_strs"])
    for ex in execs:
        if not set(ex["start"]["vms"].split()) <= selected:
            out.append(V("C15", "foreign-vm", "an update executed a test of a vm that was not selected", vms=ex["start"]["vms"]))
    for ev in events:
        if ev["kind"] == "door.unset":
            for r in ev["reqs"]:
                if r["obj"].split("-")[0] not in selected:
                    out.append(V("C15", "foreign-vm", "an update removed a state of a vm that was not selected", obj=r["obj"]))
    return dedup(out)


# --------------------------------------------------------------------------------------------
# C20
# --------------------------------------------------------------------------------------------

STATE_STEPS = {"check": "check", "get": "get", "set": "set", "unset": "unset", "push": "push", "pop": "pop",
               "create": "set", "collect": "get", "clean": "unset"}
MANAGE_STEPS = {"boot": "boot", "shutdown": "shutdown", "download": "download", "upload": "upload", "control": "run"}


def check_C20(history, compatible=None):
    out = []
    scen = history["scenario"]
    ending = history["endings"][0]
    events = history["events"]
    chain = scen["chain"]
    selected = scen["selected_vms"]
    workers = scen["nets"].split()
    if ending["how"] != "completed":
        out.append(V("C20", "chain-failed", f"the setup chain did not complete ({ending['how']}): {strip_ids(ending.get('error') or '')[:120]}",
                     error=ending.get("error"), traceback=ending.get("traceback")))
        return out
    # split the events by job (one job per step that uses a job)
    jobs, cur = [], None
    for ev in events:
        if ev["kind"] == "job.begin":
            cur = []
        elif ev["kind"] == "job.end":
            jobs.append(cur)
            cur = None
        elif cur is not None:
            cur.append(ev)
    steps_with_job = [s_ for s_ in chain if s_ != "noop"]
    if len(jobs) != len(steps_with_job):
        out.append(V("C20", "steps-skipped", "not every step of the chain was performed", chain=chain, jobs=len(jobs)))
        return out
    any_failed = False
    for step, evs in zip(steps_with_job, jobs):
        execs = executions(evs)
        action = STATE_STEPS.get(step) or MANAGE_STEPS.get(step)
        for ex in execs:
            st = ex["start"]
            got_action = st.get("step_params", {}).get("vm_action")
            if got_action != action:
                out.append(V("C20", "wrong-step", f"an execution of step {step} carries another action", step=step,
                             action=got_action, label=st["label"]))
            if not set(st["vms"].split()) <= set(selected):
                out.append(V("C20", "unselected-vm", f"step {step} acted on a vm that was not selected", vms=st["vms"]))
        per = {}
        for ex in execs:
            per.setdefault((ex["start"]["worker"], ex["start"]["vms"]), []).append(ex)
        if step in STATE_STEPS:
            want = {(w, vm) for w in workers for vm in selected if (compatible is None or compatible.get(w, {}).get(vm, True))}
        else:
            want = {(w, " ".join(selected)) for w in workers
                    if compatible is None or all(compatible.get(w, {}).get(vm, True) for vm in selected)}
        got = set(per)
        if got != want:
            missing, extra = sorted(want - got), sorted(got - want)
            out.append(V("C20", "wrong-coverage",
                         f"step {step} " + ("skipped a selected vm on a compatible worker" if missing else "ran for an unexpected vm or worker"),
                         step=step, missing=missing, extra=extra))
        for key, group in per.items():
            if len(group) > 1:
                out.append(V("C20", "repeated-step", f"step {step} was executed more than once for one vm and worker", step=step,
                             worker=key[0], vms=key[1], n=len(group)))
        # the step's parameters are applied
        for key_, value in scen.get("step_params", {}).items():
            if not key_.startswith(step + "_"):
                continue  # create/collect/clean set their own state parameters by design
            for ex in execs:
                sp = ex["start"].get("step_params", {})
                if key_ in sp and sp[key_] != value:
                    out.append(V("C20", "parameter-lost", f"step {step} was executed without the parameter given for it", key=key_,
                                 want=value, got=sp.get(key_)))
        # ... and nothing of another step's private parameters (create, collect and clean work with their own state
        # parameters, which must be gone again afterwards, also when one of their tests failed)
        if step not in ("create", "collect", "clean"):
            given = set(scen.get("step_params", {}))
            for ex in execs:
                foreign = sorted(k for k in ex["start"].get("step_params", {})
                                 if re.match(r"^(check|get|set|unset|push|pop)_(state|mode)_(images|vms)$", k) and k not in given)
                if foreign:
                    out.append(V("C20", "foreign-parameters", f"step {step} was executed with state parameters of another step",
                                 step=step, keys=foreign, chain=chain))
        # outcome of the step
        by_name = {}
        for ex in execs:
            if ex["end"] is not None and not ex["end"].get("lost"):
                by_name.setdefault(ex["start"]["name"], []).append(ex["status"])
        if any(not any(OK_STATUS.get(s_, False) for s_ in sts) for sts in by_name.values()):
            any_failed = True
    want_ret = 1 if any_failed else 0
    if ending.get("retval") != want_ret:
        out.append(V("C20", "wrong-return-code", "the chain's return code does not reflect whether a step failed",
                     retval=ending.get("retval"), expected=want_ret))
    return dedup(out)
