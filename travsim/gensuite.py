"""Generated test suites: the shipped configuration plus a random setup DAG and leaves (DESIGN 3.2).

A suite is the shipped ``tp_folder`` copied into a scratch directory with a rewritten
``groups.cfg``: extra ``internal.automated`` setup variants forming a random DAG (depth 1-4,
fan-out 1-3, image and vm states, removable states, an optional multi-producer dependency that
forces cloning) and an extra group of leaves using 1-2 vms.  The spec is a pure function of the
suite seed, so a replay regenerates the same suite.
"""
import os
import shutil

from sim.plan import H


def pick(seed, key, options):
    return options[H(seed, "gensuite", key) % len(options)]


def make_spec(seed):
    n = pick(seed, "nsetups", [2, 3, 4, 5, 6])
    setups = []
    image_states = ["customize"]
    depth = {"customize": 0}
    for i in range(1, n + 1):
        name = f"gs{i}"
        candidates = [s for s in image_states if depth[s] < 4]
        parent = pick(seed, f"parent{i}", candidates)
        typ = pick(seed, f"type{i}", ["images", "images", "images", "vms"])
        removable = pick(seed, f"removable{i}", [False, False, True])
        setup = {"name": name, "parent": parent, "type": typ, "removable": removable}
        # some image setups also leave a vm state, exactly one of the two being marked for removal
        if typ == "images" and pick(seed, f"alsovms{i}", [False, False, False, True]):
            setup["also_vms"] = {"marked": pick(seed, f"marked{i}", ["images", "vms"])}
        setups.append(setup)
        if typ == "images":
            image_states.append(name)
            depth[name] = depth[parent] + 1
    multi = None
    clone_heavy = seed % 3 == 2
    if pick(seed, "multi", [False, True, True]) or clone_heavy:
        parent = pick(seed, "multiparent", [s for s in image_states])
        multi = {"name": "gm", "parent": parent, "branches": ["gma", "gmb"] + (["gmc"] if pick(seed, "three", [0, 0, 1]) else []),
                 "dependant": "gd", "dependant_sets": pick(seed, "dsets", [True, True, False])}
    if multi and multi["dependant_sets"] and pick(seed, "deep", [False, True]):
        # one more stateful level below the dependant: leaves are then third-level clones
        multi["dependant2"] = "ge"
    mtarget = None
    if multi:
        mtarget = multi.get("dependant2") or ("gd" if multi["dependant_sets"] else "gm")
    leaves = []
    for j in range(1, pick(seed, "nleaves", [2, 3, 4, 5]) + 1):
        two = pick(seed, f"two{j}", [False, False, True])
        choices = [(s["type"], s["name"]) for s in setups] + [("images", "customize")]
        if multi:
            # weighted: several leaves (with one and two vms) cloned over the same producers is where parsing is hardest
            choices += [("images", mtarget)] * 3
        typ, dep = pick(seed, f"dep{j}", choices)
        leaf = {"name": f"gl{j}", "vms": ["vm1", "vm2"] if two else ["vm1"], "dep": {"vm1": [typ, dep]}}
        if two:
            leaf["dep"]["vm2"] = ["images", pick(seed, f"dep2{j}", ["customize"] + [s["name"] for s in setups if s["type"] == "images"][:2])]
        leaves.append(leaf)
    if clone_heavy:
        # every third suite: a one-vm and a two-vm leaf cloned over the same producers, in either order
        mdep = ["images", mtarget]
        a, b = pick(seed, "cloneorder", [(0, 1), (1, 0)])
        leaves[a] = {"name": leaves[a]["name"], "vms": ["vm1"], "dep": {"vm1": list(mdep)}}
        leaves[b] = {"name": leaves[b]["name"], "vms": ["vm1", "vm2"],
                     "dep": {"vm1": list(mdep), "vm2": ["images", pick(seed, "clonevm2", ["customize"] + [s["name"] for s in setups if s["type"] == "images"][:1])]}}
    # a worker restriction that excludes a list of variants (the shipped lists exclude variants no vm has)
    net4_no = pick(seed, "net4no", [None, "no_vm2 = WinXP, Win7", "no_vm1 = Debian, Fedora", "no_vm2 = Win7, WinXP"])
    return {"seed": seed, "setups": setups, "multi": multi, "leaves": leaves, "net4_no": net4_no}


def setup_text(spec):
    pad = " " * 20
    lines = []
    for s in spec["setups"]:
        lines += [f"{pad}- {s['name']}:",
                  f"{pad}    get_images = {s['parent']}",
                  f"{pad}    get_state_images = {s['parent']}",
                  f"{pad}    set_state_{s['type']} = {s['name']}",
                  f"{pad}    type = shared_manage_vm"]
        if s.get("also_vms"):
            lines.append(f"{pad}    set_state_vms = {s['name']}.ram")
            lines.append(f"{pad}    unset_mode_{s['also_vms']['marked']} = fi")
        elif s["removable"]:
            lines.append(f"{pad}    unset_mode_{s['type']} = fi")
    m = spec["multi"]
    if m:
        lines += [f"{pad}- {m['name']}:",
                  f"{pad}    get_images = {m['parent']}",
                  f"{pad}    get_state_images = {m['parent']}",
                  f"{pad}    type = shared_manage_vm",
                  f"{pad}    variants:"]
        for b in m["branches"]:
            lines += [f"{pad}        - {b}:", f"{pad}            set_state_images = {m['name']}.{b}"]
        lines += [f"{pad}- {m['dependant']}:",
                  f"{pad}    get_images = {m['name']}",
                  f"{pad}    type = shared_manage_vm"]
        if m["dependant_sets"]:
            lines.append(f"{pad}    set_state_images = {m['dependant']}")
        if m.get("dependant2"):
            lines += [f"{pad}- {m['dependant2']}:",
                      f"{pad}    get_images = {m['dependant']}",
                      f"{pad}    set_state_images = {m['dependant2']}",
                      f"{pad}    type = shared_manage_vm"]
    return "\n".join(lines) + "\n"


def leaves_text(spec):
    lines = ["", "    - gleaves:", "        type = tutorial_step_1", "        variants:"]
    for leaf in spec["leaves"]:
        lines.append(f"            - {leaf['name']}:")
        lines.append(f"                vms = {' '.join(leaf['vms'])}")
        single = len(leaf["vms"]) == 1
        for vm, (typ, dep) in leaf["dep"].items():
            suffix = "" if single else f"_{vm}"
            lines.append(f"                get_{typ}{suffix} = {dep}")
            multi = spec["multi"]
            # a dependency on the multi-producer group (or on its stateful dependant) carries no state: clones get it
            if multi and dep in (multi["name"], multi["dependant"], multi.get("dependant2")):
                continue
            lines.append(f"                get_state_{typ}{suffix} = {dep}")
    return "\n".join(lines) + "\n"


def write_suite(spec, path, shipped):
    """Create the suite directory (idempotent, atomic)."""
    if os.path.isdir(path):
        return path
    tmp = path + f".tmp{os.getpid()}"
    shutil.rmtree(tmp, ignore_errors=True)
    shutil.copytree(shipped, tmp, symlinks=True)
    groups = os.path.join(tmp, "configs", "groups.cfg")
    with open(groups) as handle:
        text = handle.read()
    anchor = "            # Manual or partially automated setup variants"
    assert anchor in text, "groups.cfg layout changed: cannot place generated setup"
    text = text.replace(anchor, setup_text(spec) + "\n" + anchor, 1)
    text = text.rstrip("\n") + "\n" + leaves_text(spec)
    with open(groups, "w") as handle:
        handle.write(text)
    if spec.get("net4_no"):
        nets = os.path.join(tmp, "configs", "nets.cfg")
        with open(nets) as handle:
            text = handle.read()
        anchor = "        suffix _net4\n"
        assert anchor in text, "nets.cfg layout changed: cannot place the generated worker restriction"
        text = text.replace(anchor, f"        {spec['net4_no']}\n" + anchor, 1)
        with open(nets, "w") as handle:
            handle.write(text)
    os.makedirs(os.path.join(tmp, "home"), exist_ok=True)
    try:
        os.rename(tmp, path)
    except OSError:
        shutil.rmtree(tmp, ignore_errors=True)
    return path


def run_id():
    """Suites belong to one check invocation (several checks may run at the same time on one machine)."""
    rid = os.environ.get("VERIF_RUN_ID")
    if not rid:
        rid = str(os.getpid())
        os.environ["VERIF_RUN_ID"] = rid
    return rid


def suite_dir(seed):
    from travsim.run import scratch_root
    return os.path.join(scratch_root(), f"travsim-suite-{os.getuid()}-{run_id()}-{seed}")


def ensure(seed):
    import avocado_i2n
    shipped = os.path.join(os.path.dirname(os.path.dirname(os.path.abspath(avocado_i2n.__file__))), "tp_folder")
    return write_suite(make_spec(seed), suite_dir(seed), shipped)


def cleanup():
    from travsim.run import scratch_root
    root = scratch_root()
    for name in os.listdir(root):
        if name.startswith(f"travsim-suite-{os.getuid()}-{run_id()}-") or name.startswith(f"travsim-logs-{run_id()}-"):
            shutil.rmtree(os.path.join(root, name), ignore_errors=True)
