"""Seeded generation of traversal plans (inputs x fault families), per property profile."""
from sim.plan import H, unit

VM_DEFAULT = {"vm1": "only CentOS\n", "vm2": "only Win10\n", "vm3": "only Ubuntu\n"}

# (selection, relative size, needs-vms)
SELECTIONS = [
    ("leaves..tutorial1", 1),
    ("normal..tutorial1", 1),
    ("leaves..tutorial2", 1),
    ("minimal", 2),
    ("leaves..tutorial1,leaves..tutorial2", 2),
    ("normal..tutorial3", 2),
    ("leaves..tutorial_gui", 2),
    ("leaves..tutorial2,leaves..tutorial_gui", 3),
    ("leaves..tutorial1,normal..tutorial3", 3),
    ("leaves..tutorial_get..explicit_noop", 3),
    ("leaves..tutorial_get..explicit_clicked", 3),
    ("leaves..tutorial_get..implicit_both", 4),
    ("leaves..tutorial_get", 5),
    ("leaves..tutorial_finale", 5),
    ("leaves..tutorial_gui,leaves..tutorial_get..explicit_noop", 4),
    # a test selected through a nested set (normal.gui) which is also the setup of another selected test
    ("normal..tutorial_gui..client_noop,leaves..tutorial_get..explicit_noop", 3),
    ("normal..tutorial_gui,leaves..tutorial_get..explicit_noop", 3),
    # a test cloned over several parents selected together with these parents (which worker expands what first matters)
    ("leaves..tutorial_gui,leaves..tutorial_get..implicit_both", 3),
]

SMALL = [s for s in SELECTIONS if s[1] <= 2]
MEDIUM = [s for s in SELECTIONS if s[1] <= 3]

NETS_SETS = [
    "net1", "net1 net2", "net1 net2 net3", "net1 net2 net3 net4", "net2 net4",
    "net3 net5 net1", "net1 net2 net3 net4 net5",
    "cluster1.net6 cluster1.net7", "net1 cluster1.net6 cluster1.net7",
    "cluster1.net6 cluster2.net6", "cluster1.net6 cluster1.net8 cluster2.net7",
    "net0", "net0 net1", "net1 net0 cluster1.net6",
]
LXC_NETS = ["net1 net2", "net1 net2 net3", "net1 net2 net3 net4", "net2 net4", "net1 net2 net3 net4 net5"]

VM_VARIANTS = [
    VM_DEFAULT,
    {"vm1": "only Fedora\n", "vm2": "only Win7\n", "vm3": "only Kali\n"},
    {"vm1": "only CentOS\n", "vm2": "only Win7\n", "vm3": "only Ubuntu\n"},
    {"vm1": "", "vm2": "only Win10\n", "vm3": "only Ubuntu\n"},
]

BASE_PARAMS = {"test_timeout": 100, "shared_pool": "/mnt/local/images/shared"}


class Gen:
    """Tiny keyed generator: every choice is H(seed, key)."""

    def __init__(self, seed):
        self.seed = seed

    def pick(self, key, options):
        return options[H(self.seed, "gen", key) % len(options)]

    def chance(self, key, p):
        return unit(self.seed, "gen", key) < p

    def real(self, key):
        return unit(self.seed, "gen", key)


def generated_suite(g, tier):
    """Pick one of a small pool of generated suites (few per run so that their cold parses are amortised)."""
    import os
    try:
        base = int(os.environ.get("VERIF_SEED", "0"))
    except ValueError:
        base = 0
    k = 6 if tier == "quick" else 48
    return 1000 * base + g.pick("suite", list(range(k)))


def base_scenario(g, selections=MEDIUM, nets=NETS_SETS, vm_variants=(VM_DEFAULT,), modes=("lazy", "lazy", "eager"),
                  generated_p=0.0, tier="quick"):
    if generated_p and g.chance("generated", generated_p):
        from travsim import gensuite
        suite = generated_suite(g, tier)
        spec = gensuite.make_spec(suite)
        leaves = [l["name"] for l in spec["leaves"]]
        sel = g.pick("gsel", ["leaves..gleaves", "leaves..gleaves", "leaves..gleaves.." + g.pick("gleaf", leaves)])
        if spec.get("net4_no") and g.chance("usenet4", 0.6):
            # make the generated worker restriction of net4 matter: net4 takes part and the vm has the excluded variants
            vm = "vm2" if "vm2" in spec["net4_no"] else "vm1"
            return {
                "generated": suite, "tests": sel, "vm_strs": dict(VM_DEFAULT, **{vm: ""}),
                "nets": g.pick("gnets4", ["net2 net4", "net1 net2 net3 net4", "net4 net1"]),
                "mode": g.pick("mode", list(modes)), "params": dict(BASE_PARAMS),
                "families": {"durations": g.pick("durations", ["ties", "ties", "spread", "unit"])}, "epochs": [{}],
            }
        return {
            "generated": suite,
            "tests": sel,
            "vm_strs": dict(g.pick("gvms", [VM_DEFAULT, VM_DEFAULT, VM_DEFAULT,
                                            {"vm1": "only CentOS\n", "vm2": "", "vm3": "only Ubuntu\n"},
                                            {"vm1": "", "vm2": "only Win10\n", "vm3": "only Ubuntu\n"}])),
            "nets": g.pick("gnets", ["net1", "net1 net2", "net1 net2 net3", "net2 net4", "cluster1.net6 cluster1.net7",
                                     "net1 cluster1.net6", "net1 net2 net3 net4"]),
            "mode": g.pick("mode", list(modes)),
            "params": dict(BASE_PARAMS),
            "families": {"durations": g.pick("durations", ["ties", "ties", "spread", "unit"])},
            "epochs": [{}],
        }
    sel = g.pick("selection", selections)[0]
    scen = {
        "tests": sel,
        "vm_strs": dict(g.pick("vm_strs", list(vm_variants))),
        "nets": g.pick("nets", nets),
        "mode": g.pick("mode", list(modes)),
        "params": dict(BASE_PARAMS),
        "families": {"durations": g.pick("durations", ["ties", "ties", "spread", "unit"])},
        "epochs": [{}],
    }
    return scen


def warm_key(scen):
    """Plans with the same key parse the same configuration strings (shared memo warm-up)."""
    params = tuple(sorted((k, str(v)) for k, v in scen.get("params", {}).items()))
    epochs = tuple(tuple(sorted((k, str(v)) for k, v in e.get("params", {}).items())) + (str(e.get("replay")),)
                   for e in scen.get("epochs", [{}]))
    return (scen.get("suite_path"), scen.get("generated"), scen["tests"], tuple(sorted(scen["vm_strs"].items())), scen["nets"],
            scen.get("mode"), params, epochs)


def plan_for(prop, seed, tier="quick"):
    """The plan (scenario + fault families) of run ``seed`` for property ``prop``."""
    g = Gen(seed)
    profile = PROFILES[prop]
    scen = profile(g, tier)
    return {"seed": seed, "property": prop, "engine": "travsim", "scenario": scen, "decisions": {}, "neutral": []}


# -- profiles ----------------------------------------------------------------------------------

def profile_C04(g, tier):
    sels = SMALL if tier == "quick" else MEDIUM
    scen = base_scenario(g, selections=sels, nets=[n for n in NETS_SETS if " " in n], generated_p=0.15, tier=tier)
    fam = scen["families"]
    combo = g.pick("retry", [{}, {}, {"max_tries": "2"}, {"max_tries": "3"},
                             {"max_tries": "3", "max_concurrent_tries": "1"},
                             {"max_tries": "3", "max_concurrent_tries": "2"}])
    scen["params"].update(combo)
    if combo:
        fam["p_fail"] = g.pick("p_fail", [0.2, 0.4])
        fam["statuses"] = ["FAIL", "ERROR"]
    else:
        fam["p_fail"] = g.pick("p_fail0", [0.0, 0.0, 0.2])
    if g.chance("scope", 0.25):
        scen["params"]["pool_scope"] = g.pick("pool_scope", ["own shared", "own swarm shared", "own"])
    if "generated" not in scen and g.chance("slots", 0.15):
        # remote workers on the default nets through slots (gateway/port): their swarm is "localhost", their ids plain netN
        scen["nets"] = g.pick("slotnets", ["net1 net2", "net1 net2 net3", "net2 net4"])
        scen["params"]["slots"] = " ".join(f"host.lan/{i + 1}" for i in range(len(scen["nets"].split())))
        scen["params"]["pool_scope"] = g.pick("slotscope", ["own swarm shared", "own swarm cluster shared", "own swarm shared"])
        scen["kind"] = "slots"
    if g.chance("longdur", 0.2):
        # long executions that stay within the timeout budget (test_timeout=100 x max_tries)
        fam["durations"] = "long"
    if g.chance("populate", 0.3):
        fam["p_pop_shared"] = 0.5
    return scen


def profile_C03(g, tier):
    scen = profile_C04(g, tier)
    fam = scen["families"]
    if g.chance("populate3", 0.5):
        fam["p_pop_shared"] = g.pick("ppop", [0.3, 0.6, 0.9])
    if scen["params"].get("max_tries") and g.chance("lost3", 0.3):
        # a result that never arrives keeps its worker polling for minutes while the others go on with the budget
        fam["p_lost"] = g.pick("p_lost3", [0.15, 0.3])
        # the wait for a lost result (10 x 30 s) must stay within test_timeout x max_tries: beyond it the traversal
        # deliberately grants re-entrancy to the waiting workers (recovery from a hung worker, see C04)
        scen["params"]["test_timeout"] = 400
    if g.chance("scoped-retries", 0.25):
        # separate reuse scopes with different pool contents and retries: every scope decides for itself
        scen["nets"] = g.pick("snets", ["cluster1.net6 cluster2.net6", "cluster1.net6 cluster1.net8 cluster2.net7",
                                        "net1 net2", "net1 net2 net3", "net1 cluster1.net6 cluster2.net7"])
        scen["params"]["pool_scope"] = g.pick("sscope", ["own swarm shared", "own shared", "own"])
        scen["params"]["max_tries"] = g.pick("smt", ["2", "3"])
        fam["p_pop_own"] = g.pick("ppop_own", [0.3, 0.6])
        fam["p_pop_shared"] = 0.0
        fam["p_fail"] = g.pick("sp_fail", [0.0, 0.2])
        fam["statuses"] = ["FAIL", "ERROR"]
        scen["kind"] = "scoped-retries"
    return scen


def profile_C01(g, tier):
    sels = SMALL if tier == "quick" else MEDIUM
    scen = base_scenario(g, selections=sels, generated_p=0.15, tier=tier)
    fam = scen["families"]
    kind = g.pick("kind", ["plain", "fail", "populate", "populate", "crash", "crash", "cleanup", "scope", "residue"])
    scen["kind"] = kind
    if kind == "fail":
        fam["p_fail"] = g.pick("p_fail", [0.15, 0.3])
        if g.chance("retry", 0.5):
            scen["params"]["max_tries"] = g.pick("max_tries", ["2", "3"])
    elif kind == "populate":
        fam["p_pop_shared"] = g.pick("ppop", [0.3, 0.5, 0.8])
        if g.chance("fail2", 0.3):
            fam["p_fail"] = 0.15
    elif kind == "crash":
        # epoch 0 is cut at a virtual instant, epoch 1 starts from the surviving world
        scen["epochs"] = [{"crash_at": g.pick("crash_at", [0.12, 0.26, 0.41, 0.57, 0.73, 1.05, 1.6])},
                          {}]
        fam["partial_on_crash"] = g.chance("partial", 0.5)
        if g.chance("replay", 0.4):
            scen["epochs"][1]["replay"] = "job0"
        if g.chance("three", 0.2):
            scen["epochs"].insert(1, {"crash_at": g.pick("crash_at2", [0.2, 0.5, 0.9])})
    elif kind == "cleanup":
        scen["epochs"] = [{}, {"world_ops": [{"op": "cleanup", "p": g.pick("pclean", [0.2, 0.5]), "pools": g.pick("cpools", ["all", "own", "shared"])}]}]
        if g.chance("replay", 0.4):
            scen["epochs"][1]["replay"] = "job0"
    elif kind == "scope":
        scen["params"]["pool_scope"] = g.pick("pool_scope", ["own shared", "own swarm shared", "own", "own swarm cluster"])
        fam["p_pop_shared"] = g.pick("ppop", [0.0, 0.5])
    elif kind == "residue":
        # states left only in single workers' own pools (residue of an interrupted run)
        fam["p_pop_own"] = g.pick("ppop_own", [0.3, 0.6])
        fam["p_pop_shared"] = g.pick("ppop", [0.0, 0.3])
    return scen


def profile_C02(g, tier):
    sels = SMALL if tier == "quick" else MEDIUM
    scen = base_scenario(g, selections=sels, generated_p=0.15, tier=tier, vm_variants=VM_VARIANTS)
    fam = scen["families"]
    kind = g.pick("kind", ["plain", "outcomes", "outcomes", "persistent", "persistent", "lost", "retry-create", "dry", "populate",
                           "overrun", "slow-worker"])
    scen["kind"] = kind
    if kind in ("outcomes", "retry-create"):
        fam["p_fail"] = g.pick("p_fail", [0.2, 0.4])
        scen["params"].update(g.pick("retry", [{}, {"max_tries": "2"}, {"max_tries": "3"}]))
        if kind == "retry-create":
            scen["params"]["max_tries"] = g.pick("mt", ["2", "3"])
            fam["p_fail"] = 0.5
            fam["statuses"] = ["FAIL", "ERROR"]
    elif kind == "persistent":
        target = g.pick("target", [r"internal\.stateless\.noop", r"original\.", r"automated\.customize",
                                   r"automated\.on_customize", r"automated\.connect", r"tutorial",
                                   r"virtuser", r"tutorial_gui\.client_noop"])
        fam["persistent_fail"] = {"match": target, "status": g.pick("pstatus", ["FAIL", "ERROR"])}
        scen["params"].update(g.pick("retry", [{}, {"max_tries": "2"}, {"max_tries": "3"}]))
    elif kind == "lost":
        fam["p_lost"] = g.pick("p_lost", [0.15, 0.3])
        fam["durations"] = "unit"
    elif kind == "dry":
        scen["params"]["dry_run"] = "yes"
    elif kind == "overrun":
        # executions far beyond test_timeout x max_tries: waiting workers are granted re-entrancy on purpose;
        # the run still has to end with definite results
        scen["params"]["test_timeout"] = g.pick("tt", [5, 20])
        fam["durations"] = "long"
        fam["p_fail"] = g.pick("p_fail", [0.0, 0.2])
        scen["exec_budget"] = 600
    elif kind == "slow-worker":
        workers = scen["nets"].split()
        fam["slow_worker"] = {"worker": g.pick("slow", workers), "factor": g.pick("factor", [10, 100])}
        fam["p_fail"] = g.pick("p_fail", [0.0, 0.2])
    elif kind == "populate":
        fam["p_pop_shared"] = g.pick("ppop", [0.3, 0.7])
        fam["p_fail"] = g.pick("p_fail", [0.0, 0.2])
    if kind != "dry" and g.chance("scope2", 0.2):
        # the run must end and execute everything under every legal pool scope
        scen["params"]["pool_scope"] = g.pick("pool_scope2", ["own shared", "own swarm shared", "own", "swarm cluster shared"])
    return scen


def profile_C08(g, tier):
    sels = SMALL if tier == "quick" else MEDIUM
    scen = base_scenario(g, selections=sels, nets=[n for n in NETS_SETS if " " in n],
                         vm_variants=VM_VARIANTS, generated_p=0.15, tier=tier)
    fam = scen["families"]
    fam["p_fail"] = g.pick("p_fail", [0.0, 0.2])
    if g.chance("retry", 0.3):
        scen["params"]["max_tries"] = "2"
    if g.chance("populate", 0.3):
        fam["p_pop_shared"] = 0.5
    if g.chance("replay", 0.25):
        scen["epochs"] = [{"crash_at": g.pick("crash_at", [0.26, 0.57, 1.05])}, {"replay": "job0"}]
    if g.chance("badsession", 0.3):
        fam["p_bad_session"] = g.pick("p_bad_session", [0.1, 0.3])
    return scen


def profile_C10(g, tier):
    sels = SMALL if tier == "quick" else MEDIUM
    scen = base_scenario(g, selections=sels, generated_p=0.15, tier=tier)
    fam = scen["families"]
    kind = g.pick("kind", ["retry", "retry", "retry", "stop", "rerun", "invalid", "replay", "replay", "verdict"])
    scen["kind"] = kind
    fam["p_fail"] = g.pick("p_fail", [0.3, 0.5, 0.7])
    fam["statuses"] = ["FAIL", "ERROR", "WARN", "SKIP", "CANCEL", "INTERRUPTED"]
    if kind in ("retry", "stop", "rerun"):
        scen["params"]["max_tries"] = g.pick("max_tries", ["2", "3", "4"])
        if kind == "stop":
            scen["params"]["stop_status"] = g.pick("stop", ["pass", "fail", "error", "pass warn", "fail error", "skip"])
        if kind == "rerun":
            scen["params"]["rerun_status"] = g.pick("rerun", ["fail", "fail error", "pass", "fail error unknown", "warn error"])
        if g.chance("mct", 0.3):
            scen["params"]["max_concurrent_tries"] = g.pick("mctv", ["1", "2"])
        if g.chance("both", 0.3):
            # both criteria at once: rerun while every status is in the rerun set and none in the stop set
            scen["params"].setdefault("rerun_status", g.pick("rerun2", ["fail", "fail error", "fail error warn", "pass fail"]))
            scen["params"].setdefault("stop_status", g.pick("stop2", ["pass", "error", "pass warn", "skip"]))
    elif kind == "invalid":
        combo = g.pick("invalid", [{"max_tries": "-1"}, {"max_tries": "-32"}, {"max_tries": "hey"}, {"max_tries": "2.5"},
                                   {"max_tries": "3", "stop_status": "invalid"}, {"max_tries": "3", "rerun_status": "passed"},
                                   {"max_tries": "2", "stop_status": "fail bogus"}])
        scen["params"].update(combo)
        scen["expect_value_error"] = " ".join(f"{k}={v}" for k, v in sorted(combo.items()))
    elif kind == "replay":
        first = {}
        if g.chance("crash", 0.5):
            first["crash_at"] = g.pick("crash_at", [0.26, 0.57, 1.05, 1.6])
        scen["epochs"] = [first, {"replay": "job0"}]
        if g.chance("replay_tries", 0.3):
            scen["epochs"][1]["params"] = {"max_tries": g.pick("rmt", ["1", "3"])}
        if g.chance("replay_stop", 0.25):
            scen["epochs"][1].setdefault("params", {})["stop_status"] = g.pick("rstop", ["error", "skip", "pass"])
        if g.chance("cleanup", 0.4):
            scen["epochs"][1]["world_ops"] = [{"op": "cleanup", "p": 0.4, "pools": "all"}]
        if g.chance("two_jobs", 0.35):
            # results of several previous jobs accumulate: replay = "job0 job1"
            second = {"crash_at": g.pick("crash_at2", [0.3, 0.7, 1.2])} if g.chance("crash2", 0.5) else {}
            if g.chance("second_replays", 0.5):
                second["replay"] = "job0"
            scen["epochs"] = [scen["epochs"][0], second, dict(scen["epochs"][1], replay="job0 job1")]
    elif kind == "verdict":
        scen["params"].update(g.pick("vr", [{}, {"max_tries": "2"}]))
    return scen


REMOVABLE = [
    ("leaves..tutorial_gui", 2),
    ("leaves..tutorial_gui..client_noop", 2),
    ("leaves..tutorial_get..explicit_noop", 3),
    ("leaves..tutorial_gui,leaves..tutorial_get..explicit_noop", 4),
    ("leaves..tutorial2,leaves..tutorial_gui", 3),
    ("leaves..tutorial_get", 5),
    ("leaves..tutorial_finale", 5),
    ("leaves..tutorial_gui,leaves..tutorial_finale", 5),
]


def profile_C05(g, tier):
    sels = [s for s in REMOVABLE if s[1] <= (3 if tier == "quick" else 5)]
    scen = base_scenario(g, selections=sels,
                         nets=["net1", "net1 net2", "net1 net2 net3", "net1 net2 net3 net4", "net2 net4",
                               "cluster1.net6 cluster1.net7", "net1 cluster1.net6 cluster1.net7", "net3 net5 net1"],
                         modes=("lazy", "lazy", "lazy", "eager"), generated_p=0.35, tier=tier)
    fam = scen["families"]
    kind = g.pick("kind", ["plain", "plain", "fail", "retry", "populate", "copy", "scope", "swarm-retry", "swarm-retry"])
    scen["kind"] = kind
    if kind == "fail":
        fam["p_fail"] = g.pick("p_fail", [0.15, 0.3])
    elif kind == "retry":
        fam["p_fail"] = g.pick("p_fail", [0.2, 0.4])
        fam["statuses"] = ["FAIL", "ERROR"]
        scen["params"]["max_tries"] = g.pick("max_tries", ["2", "3"])
    elif kind == "populate":
        fam["p_pop_shared"] = g.pick("ppop", [0.4, 0.8])
    elif kind == "copy":
        scen["params"]["pool_filter"] = "copy"
        fam["p_pop_shared"] = g.pick("ppop", [0.0, 0.5])
    elif kind == "scope":
        scen["params"]["pool_scope"] = g.pick("pool_scope", ["own shared", "own swarm shared"])
    elif kind == "swarm-retry":
        # several workers of one remote swarm (optionally plus others) sharing setup within the swarm only,
        # with concurrent tries of the dependants of a removable state
        scen["nets"] = g.pick("swnets", ["cluster1.net6 cluster1.net7", "cluster1.net6 cluster1.net8", "cluster1.net6 cluster1.net7 cluster1.net8",
                                         "cluster1.net6 cluster1.net8 cluster2.net7", "net1 cluster1.net6 cluster1.net8"])
        scen["params"]["pool_scope"] = g.pick("swscope", ["own swarm shared", "own swarm shared", "own swarm cluster shared"])
        scen["params"]["max_tries"] = g.pick("swtries", ["2", "3"])
        fam["p_fail"] = g.pick("swfail", [0.0, 0.2, 0.4])
        fam["statuses"] = ["FAIL", "ERROR"]
        if scen.get("generated") is None:
            scen["tests"] = g.pick("swsel", ["leaves..tutorial_get..explicit_noop", "leaves..tutorial_gui",
                                             "leaves..tutorial_get..explicit_noop,leaves..tutorial_get..implicit_both",
                                             "leaves..tutorial_gui,leaves..tutorial_get..explicit_noop"])
    return scen


GRAPH_NETS = ["net1", "net1 net2", "net1 net2 net3", "net3 net5 net1", "net2 net4", "net1 net3 net5",
              "cluster1.net6 cluster1.net7", "net1 cluster1.net6 cluster1.net7", "cluster1.net6 cluster2.net6",
              "cluster1.net7 cluster2.net9 net1", "net0", "net0 net1", "net1 net2 net3 net4 net5"]
GRAPH_VMS = [
    VM_DEFAULT, VM_DEFAULT,
    {"vm1": "only Fedora\n", "vm2": "only Win7\n", "vm3": "only Kali\n"},
    {"vm1": "only CentOS\n", "vm2": "only Win7\n", "vm3": "only Ubuntu\n"},
    {"vm1": "", "vm2": "only Win10\n", "vm3": "only Ubuntu\n"},
    {"vm1": "only CentOS\n", "vm2": "", "vm3": "only Ubuntu\n"},
    {"vm1": "", "vm2": "", "vm3": "only Ubuntu\n"},
]


def graph_scenario(g, tier, props):
    sels = [s for s in SELECTIONS if s[1] <= (3 if tier == "quick" else 5)]
    scen = base_scenario(g, selections=sels, nets=GRAPH_NETS, vm_variants=GRAPH_VMS, modes=("lazy", "lazy", "eager"),
                         generated_p=0.4, tier=tier)
    scen["graph_props"] = props
    scen["families"]["durations"] = g.pick("gdur", ["ties", "spread", "unit"])
    if g.chance("twoimages", 0.15):
        # a vm with two images: a test then depends on one parent through two objects
        scen["params"]["images_vm1"] = "image1 image2"
    return scen


HETERO_NETS = ["net5 net1", "net1 net5", "net3 net5 net1", "net5 net3", "net1 net3 net5", "cluster2.net9 cluster1.net6",
               "cluster1.net7 cluster2.net9 net1", "net5 net2 net4", "net5 net1 net2", "net5 net3 net1 net2",
               "cluster2.net9 net1 net2", "net5 net1 net2 net4"]
MULTI_VMS = [{"vm1": "", "vm2": "only Win10\n", "vm3": "only Ubuntu\n"}, {"vm1": "only CentOS\n", "vm2": "", "vm3": "only Ubuntu\n"},
             {"vm1": "", "vm2": "", "vm3": "only Ubuntu\n"}, {"vm1": "only Fedora\n", "vm2": "", "vm3": "only Ubuntu\n"}]


def hetero_scenario(scen, g):
    """Workers with different vm restrictions, several vm variants, lazy expansion (whose order matters)."""
    scen.pop("generated", None)
    scen["nets"] = g.pick("hnets", HETERO_NETS)
    scen["vm_strs"] = dict(g.pick("hvms", MULTI_VMS))
    scen["mode"] = "lazy"
    scen["tests"] = g.pick("hsel", ["leaves..tutorial1", "leaves..tutorial_gui", "normal..tutorial3", "leaves..tutorial2",
                                    "leaves..tutorial_gui..client_noop", "leaves..tutorial1,normal..tutorial3"])
    scen["kind"] = "heterogeneous-workers"
    return scen


def profile_C06(g, tier):
    scen = graph_scenario(g, tier, ["C06"])
    if g.chance("hetero", 0.3):
        scen = hetero_scenario(scen, g)
        scen["mode"] = g.pick("hmode", ["lazy", "eager"])
    if g.chance("fail", 0.3):
        scen["families"]["p_fail"] = 0.2
    if g.chance("populate", 0.3):
        scen["families"]["p_pop_shared"] = 0.5
    return scen


def profile_C09(g, tier):
    scen = graph_scenario(g, tier, ["C09"])
    if g.chance("clone-race", 0.12):
        # a cloned test and its several parents expanded lazily by different workers in different orders
        scen.pop("generated", None)
        scen.update(tests=g.pick("crsel", ["leaves..tutorial_gui,leaves..tutorial_get..implicit_both",
                                           "leaves..tutorial_gui,leaves..tutorial_get..implicit_both,leaves..tutorial1"]),
                    nets=g.pick("crnets", ["net1 net2", "net1 net2 net3", "cluster1.net6 cluster1.net7", "net2 net4"]),
                    mode="lazy", vm_strs=dict(VM_DEFAULT), kind="clone-race")
        scen["params"].pop("images_vm1", None)
    elif g.chance("hetero", 0.3):
        scen = hetero_scenario(scen, g)
    if scen["mode"] == "eager":
        scen["parse_twice"] = g.chance("twice", 0.5)
    if g.chance("populate", 0.3):
        scen["families"]["p_pop_shared"] = 0.5
    return scen


def profile_C07(g, tier):
    scen = graph_scenario(g, tier, ["C07"])
    if g.chance("hetero", 0.2):
        scen = hetero_scenario(scen, g)
        scen["mode"] = g.pick("hmode", ["lazy", "eager"])
    if tier == "quick" and g.chance("big", 0.3):
        scen["tests"] = g.pick("bigsel", ["leaves..tutorial_get", "leaves..tutorial_finale", "leaves..tutorial_get..implicit_both"])
    return scen


def profile_C16(g, tier):
    scen = graph_scenario(g, tier, ["C16"])
    if g.chance("fail", 0.5):
        scen["families"]["p_fail"] = g.pick("p_fail", [0.2, 0.4])
        scen["params"].update(g.pick("retry", [{}, {"max_tries": "2"}, {"max_tries": "3"}]))
    if g.chance("populate", 0.3):
        scen["families"]["p_pop_shared"] = 0.5
    return scen


CHAINS = {
    "vm1": ["install", "customize", "on_customize"], "vm1b": ["install", "customize", "connect"],
    "vm1c": ["install", "customize", "linux_virtuser"],
    "vm2": ["install", "customize", "windows_virtuser"], "vm2b": ["install", "customize", "on_customize"],
    "vm3": ["install", "customize"],
}
AVAILABLE_VMS = [
    {"vm1": "only CentOS\n", "vm2": "only Win10\n", "vm3": "only Ubuntu\n"},
    {"vm1": "only CentOS\n", "vm2": "only Win10\n", "vm3": "only Ubuntu\n"},
    {"vm1": "only Fedora\n", "vm2": "only Win7\n", "vm3": "only Kali\n"},
    {"vm1": "", "vm2": "only Win10\n", "vm3": "only Ubuntu\n"},
    {"vm1": "only CentOS\n", "vm2": "", "vm3": "only Ubuntu\n"},
]


def profile_C15(g, tier):
    available = dict(g.pick("available", AVAILABLE_VMS))
    selected = g.pick("selected", [["vm1"], ["vm2"], ["vm1", "vm2"], ["vm1"], ["vm2"], ["vm3"], ["vm1", "vm2", "vm3"]])
    nets = g.pick("nets", ["net1", "net1 net2", "net2 net4", "net1 net2 net4", "cluster1.net6 cluster1.net8", "net1 cluster1.net6",
                           "net1 net2 net4", "net1 net2 net3", "net4 net2 net1", "net1 net2 net3 net4"])
    vms_params = {}
    for vm in selected:
        chain = CHAINS[g.pick(f"chain{vm}", [k for k in CHAINS if k.startswith(vm)])]
        i = g.pick(f"from{vm}", list(range(len(chain))))
        j = g.pick(f"to{vm}", list(range(i, len(chain))))
        if g.chance(f"default{vm}", 0.3):
            continue  # defaults: install -> customize
        vms_params[f"from_state_{vm}"] = chain[i]
        vms_params[f"to_state_{vm}"] = chain[j]
    if g.chance("remove_set", 0.25):
        vms_params["remove_set"] = g.pick("rs", ["minimal", "leaves", "normal"])
    for vm in selected:
        # a remove set of one vm only (overrides the general one for that vm)
        if g.chance(f"remove_set_{vm}", 0.25):
            vms_params[f"remove_set_{vm}"] = g.pick(f"rs{vm}", ["minimal", "leaves", "normal"])
    if g.chance("invalid", 0.1):
        vm = selected[0]
        vms_params[g.pick("which", [f"from_state_{vm}", f"to_state_{vm}"])] = g.pick("bogus", ["nonexistent", "custmize"])
    scen = {"tool": "update", "tests": "-", "vm_strs": {vm: available[vm] for vm in selected}, "available_vms": available,
            "nets": nets, "mode": "eager", "params": {"shared_pool": "/mnt/local/images/shared"},
            "vms_params": vms_params,
            "families": {"durations": g.pick("durations", ["ties", "spread", "unit"]), "p_pop_shared": 1.0}, "epochs": [{}]}
    return scen


STEP_POOL = ["check", "get", "set", "unset", "push", "pop", "boot", "shutdown", "download", "upload", "control", "noop",
             "create", "clean", "collect"]
STEP_STATE_PARAM = {"check": "check_state", "get": "get_state", "set": "set_state", "unset": "unset_state",
                    "push": "push_state", "pop": "pop_state"}


def profile_C20(g, tier):
    selected = g.pick("selected", [["vm1"], ["vm2"], ["vm1", "vm2"], ["vm1", "vm2", "vm3"], ["vm2", "vm3"], ["vm1", "vm3"]])
    nets = g.pick("nets", ["net1", "net1 net2", "net2 net4", "net1 net2 net3", "net3 net5 net1", "net1 cluster1.net6", "net0"])
    n = g.pick("nsteps", [1, 1, 2, 3, 4])
    chain = [g.pick(f"step{i}", STEP_POOL) for i in range(n)]
    argv = ["setup=" + ",".join(chain), "vms=" + ",".join(selected), "nets=" + nets.replace(" ", ",")]
    vm_strs = {"vm1": "only CentOS\n", "vm2": "only Win10\n", "vm3": "only Ubuntu\n"}
    if g.chance("variant", 0.3):
        argv.append("only_vm1=Fedora")
        vm_strs["vm1"] = "only Fedora\n"
    step_params = {}
    for step in set(chain):
        if step in STEP_STATE_PARAM and g.chance(f"param{step}", 0.7):
            typ = g.pick(f"ptyp{step}", ["vms", "images"])
            key = f"{STEP_STATE_PARAM[step]}_{typ}"
            value = g.pick(f"pval{step}", ["customize", "on_customize", "mystate", "s.1"])
            argv.append(f"{key}={value}")
            step_params[key] = value
    fam = {"durations": g.pick("durations", ["ties", "spread", "unit"]), "p_pop_shared": g.pick("ppop", [1.0, 1.0, 0.5])}
    if g.chance("failing", 0.4):
        fam["p_fail"] = g.pick("p_fail", [0.2, 0.5])
        fam["statuses"] = ["FAIL", "ERROR"]
    scen = {"tool": "manu", "tests": "-", "argv": argv, "chain": chain, "selected_vms": selected,
            "vm_strs": {vm: vm_strs[vm] for vm in selected}, "nets": nets, "mode": "eager",
            "params": {}, "step_params": step_params, "families": fam, "epochs": [{}]}
    return scen


PROFILES = {
    "C01": profile_C01,
    "C02": profile_C02,
    "C03": profile_C03,
    "C04": profile_C04,
    "C05": profile_C05,
    "C06": profile_C06,
    "C07": profile_C07,
    "C09": profile_C09,
    "C16": profile_C16,
    "C08": profile_C08,
    "C10": profile_C10,
    "C15": profile_C15,
    "C20": profile_C20,
}
