"""Execute one plan (1..n epochs over one world) and return its history."""
import hashlib
import json
import os
import shutil
import tempfile

from sim.plan import Plan
from travsim import harness


def scratch_root():
    base = "/dev/shm" if os.path.isdir("/dev/shm") and os.access("/dev/shm", os.W_OK) else tempfile.gettempdir()
    return base


def apply_world_ops(sim, ops):
    """Explicit world mutations of the plan: populate / cleanup between epochs."""
    for op in ops or []:
        if op["op"] == "add":
            sim.world.add(op["pool"], (op["obj"], op["state"]))
            sim.fault("population-own" if op["pool"] != "shared" else "population-shared")
            sim.log("world.add", pool=op["pool"], obj=op["obj"], state=op["state"])
        elif op["op"] == "del":
            if sim.world.has(op["pool"], (op["obj"], op["state"])):
                sim.world.discard(op["pool"], (op["obj"], op["state"]))
                sim.fault("cleanup-between-epochs")
                sim.log("world.del", pool=op["pool"], obj=op["obj"], state=op["state"])
        elif op["op"] == "cleanup":
            # manual cleanup between epochs: each stored item is removed with probability p
            for pool, item in list(sim.world.items()):
                pools = op.get("pools", "all")
                if pools == "shared" and pool != "shared":
                    continue
                if pools == "own" and pool == "shared":
                    continue
                key = f"cleanup/{sim.epoch}/{pool}/{harness.short_key(item[0])}/{item[1]}"
                if sim.plan.chance(key, op.get("p", 0.3)):
                    sim.world.discard(pool, item)
                    sim.fault("cleanup-between-epochs")
                    sim.log("world.del", pool=pool, obj=item[0], state=item[1])


def run_plan(plan_data, keep_events=True):
    """Run all epochs of a plan; the world is the only thing surviving between epochs."""
    plan = Plan(plan_data)
    scenario = plan_data["scenario"]
    # caches keyed by object identity must not survive from an earlier run of this process (warm-up runs happen in the
    # long-lived pool process, the judged runs in its forked children: a recycled id() with the same test name would
    # otherwise bring back the objects of another scenario)
    from travsim import graphcheck
    graphcheck._OBJ_CACHE.clear()
    harness.install(suite_path=scenario.get("suite_path"), home=scenario.get("home"))
    sim = harness.Sim(plan, scenario)
    from travsim import gensuite
    logs_dir = tempfile.mkdtemp(prefix=f"travsim-logs-{gensuite.run_id()}-", dir=scratch_root())
    endings = []
    try:
        epochs = scenario.get("epochs") or [{}]
        if scenario.get("tool"):
            epochs = []
            endings.append(run_tool_scenario(sim, scenario, logs_dir))
        for i, epoch_cfg in enumerate(epochs):
            sim.epoch = i
            sim.exec_counts = {}
            apply_world_ops(sim, epoch_cfg.get("world_ops"))
            if epoch_cfg.get("skip_run"):
                continue
            ending = harness.run_epoch(sim, epoch_cfg, logs_dir)
            endings.append(ending)
    finally:
        shutil.rmtree(logs_dir, ignore_errors=True)
        harness.CURRENT["sim"] = None
    history = {
        "events": sim.events,
        "endings": endings,
        "probes": sim.probes,
        "faults": sim.faults,
        "digest": sim.digest(),
        "world": sim.world.dump(),
        "assigned": sim.assigned,
        "consulted": dict(plan.consulted),
        "graph_violations": sim.graph_violations,
        "graph_probes": sim.graph_probes,
        "scenario": {k: v for k, v in scenario.items() if not k.startswith("_")},
    }
    return history


def run_tool_scenario(sim, scenario, logs_dir):
    """C15/C20: drive intertest_setup.update or Manu.run with the selftests' job seam."""
    from virttest import utils_params
    from avocado_i2n import intertest_setup
    tool = scenario["tool"]
    if tool == "update":
        config = {"available_vms": dict(scenario["available_vms"]),
                  "available_restrictions": ["leaves", "normal", "minimal"],
                  "param_dict": dict(scenario.get("params", {}), nets=scenario["nets"]),
                  "tests_str": {}, "tests_params": utils_params.Params(),
                  "vms_params": utils_params.Params(dict(scenario.get("vms_params", {}))),
                  "vm_strs": dict(scenario["vm_strs"])}
        return harness.run_tool(sim, lambda: intertest_setup.update(config, tag="1r"), logs_dir)
    if tool == "manu":
        from avocado_i2n.plugins.manu import Manu
        config = {"i2n.manu.params": list(scenario["argv"]), "datadir.paths.logs_dir": logs_dir}
        manu = Manu.__new__(Manu)
        return harness.run_tool(sim, lambda: manu.run(config), logs_dir)
    raise AssertionError(tool)


def interleaving_hash(history):
    """Measure of distinct interleavings: the sequence of (worker role, class, start|end)."""
    h = hashlib.sha256()
    roles = {}
    for ev in history["events"]:
        if ev["kind"] in ("start", "end", "crash", "door.unset", "door.get"):
            role = roles.setdefault(ev["worker"], len(roles))
            h.update(f"{ev['epoch']}|{role}|{ev['label']}|{ev['kind']}|{ev.get('status', '')};".encode())
    return h.hexdigest()[:16]


def concurrency_pairs(history):
    """Distinct unordered pairs of classes that were executing at the same time."""
    pairs = set()
    running = {}
    for ev in history["events"]:
        if ev["kind"] == "start":
            for other in running.values():
                pairs.add(tuple(sorted((other, ev["label"]))))
            running[ev["serial"]] = ev["label"]
        elif ev["kind"] in ("end", "crash"):
            running.pop(ev["serial"], None)
        elif ev["kind"] == "epoch.begin":
            running = {}
    return pairs
