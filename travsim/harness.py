"""Engine A: real graph parsing + multi-worker traversal under the simulator (DESIGN.md 3).

Real code: everything under ``avocado_i2n.cartgraph``, ``plugins/runner.py`` (``run_workers``,
``run_test_node``, ``all_results_ok``, ``results_from_previous_jobs``), ``params_parser``.
Stubs owned here: the event loop, the test execution (``TestRunner.run_test_task``), the state
control door (``cartgraph.node.door``), the remote login, worker start and spawner dispatch.
"""
import asyncio
import hashlib
import json
import os
import re
import types

from sim.vloop import VirtualLoop, SimDeadlock, StepBudgetExceeded, VirtualTimeBudgetExceeded, SpinDetected

STATUSES = ["PASS", "FAIL", "ERROR", "WARN", "SKIP", "CANCEL", "INTERRUPTED"]
OK_STATUS = {"PASS": True, "WARN": True, "SKIP": True, "CANCEL": True,
             "FAIL": False, "ERROR": False, "INTERRUPTED": False}

DURATION_PALETTES = {
    # tie-rich: equal to / multiples of the minimal back-off period of 0.1 s (test_timeout=100)
    "ties": [0.05, 0.1, 0.1, 0.2, 0.3, 0.15],
    "spread": [0.01, 0.07, 0.1, 0.5, 1.3, 2.9, 7.0],
    "long": [1.0, 5.0, 30.0, 60.0, 90.0],
    "unit": [0.1],
}

NETS_RE = re.compile(r"\.nets\.[A-Za-z0-9_]+\.[A-Za-z0-9_]+")


def test_class(name):
    """Worker-invariant form of a full test name."""
    return NETS_RE.sub(".nets.@", name)


def short_class(name):
    """Readable schedule-independent label: head of the name plus the OS variants."""
    head = name.split(".vms.")[0]
    oses = re.findall(r"\.(CentOS|Fedora|Win10|Win7|Ubuntu|Kali|VA\d*|VB\d*|VC\d*)\b", name)
    return head + ("[" + ",".join(oses) + "]" if oses else "")


# --------------------------------------------------------------------------------------------
# independent reader of a test's parameters (does not use cartgraph helpers)
# --------------------------------------------------------------------------------------------

def permanent_vms(node):
    """Which vms of a node are permanent, from the vm objects' own (parser given) parameters.

    The joined parameters of a multi-vm test carry an unsuffixed ``permanent_vm`` of the last vm,
    so the node's parameters alone cannot tell."""
    out = set()
    for o in getattr(node, "objects", []):
        if o.key == "vms" and o.params.get("permanent_vm", "no") == "yes":
            out.add(o.suffix)
    return out


def read_objects(params, permanent=None):
    """Per stateful object what a test requires / produces, read from its flat parameters.

    Mirrors ``states.setup._parametric_object_iteration`` (vms, then images), nothing from
    ``cartgraph``.  Returns a list of dicts with keys
    ``vm, image, type, oid, get_state, set_state, unset_mode, locations, pool_scope, get``.
    """
    objs = []
    for vm in params.objects("vms"):
        vm_params = params.object_params(vm)
        vm_id = vm_params.get("object_id", vm)
        is_permanent = (vm in permanent) if permanent is not None else \
            (vm_params.get("permanent_vm", "no") == "yes" and len(params.objects("vms")) == 1)
        typed = vm_params.object_params("vms")
        objs.append({
            "vm": vm, "image": "", "type": "vms", "oid": vm_id, "permanent": is_permanent,
            "get_state": typed.get("get_state", "") or "",
            "set_state": typed.get("set_state", "") or "",
            "unset_mode": typed.get("unset_mode", "ri"),
            "get_mode": typed.get("get_mode", "ra"),
            "locations": typed.get("get_location", "") or "",
            "pool_scope": typed.get("pool_scope", ""),
            "get": typed.get("get", "") or "",
        })
        for image in vm_params.objects("images"):
            image_params = vm_params.object_params(image)
            typed = image_params.object_params("images")
            objs.append({
                "vm": vm, "image": image, "type": "images", "oid": vm_id, "permanent": is_permanent,
                "get_state": typed.get("get_state", "") or "",
                "set_state": typed.get("set_state", "") or "",
                "unset_mode": typed.get("unset_mode", "ri"),
                "get_mode": typed.get("get_mode", "ra"),
                "locations": typed.get("get_location", "") or "",
                "pool_scope": typed.get("pool_scope", ""),
                "get": typed.get("get", "") or "",
            })
    return objs


def obj_key(o):
    return f"{o['oid']}/{o['image']}" if o["image"] else o["oid"]


ROOTS = ("root", "0root", "boot", "0boot", "")


class World:
    """Durable state: which (object, state) exists in which pool.  Survives crashes.

    The *initial population* is materialised lazily: the first time anybody asks whether an
    item that was never written is in a pool, the plan decides (key ``pop/<pool>/<obj>/<state>``).
    A state nobody ever asks about is unobservable, so this equals pre-populating that subset.
    """

    def __init__(self, data=None, decide=None):
        data = data or {}
        self.pools = {"shared": set(tuple(x) for x in data.get("shared", []))}
        for w, v in data.get("own", {}).items():
            self.pools[w] = set(tuple(x) for x in v)
        #: items whose initial presence has been decided (either way) or that were written
        self.known = {name: set(items) for name, items in self.pools.items()}
        self.decide = decide

    def _pool(self, name):
        name = name or "shared"
        if name not in self.pools:
            self.pools[name] = set()
            self.known[name] = set()
        return name

    def has(self, pool, item):
        pool = self._pool(pool)
        item = tuple(item)
        if item not in self.known[pool]:
            self.known[pool].add(item)
            if self.decide is not None and self.decide(pool, item):
                self.pools[pool].add(item)
        return item in self.pools[pool]

    def add(self, pool, item):
        pool = self._pool(pool)
        self.known[pool].add(tuple(item))
        self.pools[pool].add(tuple(item))

    def discard(self, pool, item):
        pool = self._pool(pool)
        self.known[pool].add(tuple(item))
        self.pools[pool].discard(tuple(item))

    def items(self):
        for pool in sorted(self.pools):
            for item in sorted(self.pools[pool]):
                yield pool, item

    def dump(self):
        return {"shared": sorted(self.pools["shared"]),
                "own": {w: sorted(v) for w, v in sorted(self.pools.items()) if w != "shared"}}

    def digest(self):
        return hashlib.sha256(json.dumps(self.dump(), sort_keys=True).encode()).hexdigest()[:16]


class ExecBudgetExceeded(Exception):
    """Far more executions than any legal run of the scenario could need (livelock with awaits)."""


class FakeSession:
    def __init__(self, wid, host, port):
        self.wid, self.host, self.port = wid, host, port
        self.closed = False

    def cmd_output(self, cmd, *a, **kw):
        # fault: a cached session has gone bad (the health check of get_session times out, a new login follows)
        sim = CURRENT["sim"]
        p = sim.families.get("p_bad_session", 0.0) if sim is not None else 0.0
        if p:
            k = sim.session_checks.get(self.wid, 0)
            sim.session_checks[self.wid] = k + 1
            if sim.plan.chance(f"badsession/{sim.epoch}/{self.wid}/{k}", p):
                from aexpect.exceptions import ShellTimeoutError
                sim.fault("bad-session")
                raise ShellTimeoutError(cmd, "")
        return "Thu Jan  1 00:00:00 UTC 1970"

    def close(self):
        self.closed = True


class Token(str):
    """Stands for a modified control file; carries the action and the parameters."""
    action = None
    params = None


class FakeDoor:
    """State control seam: answers from / acts on the world model, logs every request."""

    DUMP_CONTROL_DIR = "/tmp"

    def __init__(self, sim):
        self.sim = sim

    def set_subcontrol_parameter(self, path, key, value):
        tok = Token(path)
        tok.action = getattr(path, "action", None)
        tok.params = getattr(path, "params", None)
        if key == "action":
            tok.action = value
        return tok

    def set_subcontrol_parameter_dict(self, path, key, value):
        tok = Token(path)
        tok.action = getattr(path, "action", None)
        tok.params = value
        return tok

    def run_subcontrol(self, session, token):
        self.sim.door_request(session, token.action, token.params)


class Sim:
    """One simulated run (one or more epochs over one world)."""

    def __init__(self, plan, scenario):
        self.plan = plan
        self.scenario = scenario
        self.world = World(scenario.get("world"), self.decide_population)
        self.events = []
        self.seq = 0
        self.epoch = 0
        self.loop = None
        self.exec_counts = {}
        self.running = {}
        self.serial = 0
        self.probes = {}
        self.faults = {}
        self.graph = None
        self.runner = None
        self.sessions = {}
        self.workers_by_addr = {}
        self.workers_by_host = {}
        self.session_checks = {}
        self.monitors = []
        self.families = scenario.get("families", {})
        self.assigned = []      # (serial, uid, name, status) per simulated result
        self.sleep_log = []
        self.exec_budget = scenario.get("exec_budget", 400)
        self.graph_violations = []
        self.graph_probes = {}
        self.serial_at_epoch = 0
        self.nodes_created = 0
        self.nodes_at_epoch = 0
        self.node_budget = scenario.get("node_budget", 4000)

    # -- logging -------------------------------------------------------------------------
    def now(self):
        return round(self.loop.time(), 4) if self.loop is not None else 0.0

    def log(self, kind, **kw):
        self.seq += 1
        ev = {"seq": self.seq, "t": self.now(), "epoch": self.epoch, "kind": kind}
        ev.update(kw)
        self.events.append(ev)
        for monitor in self.monitors:
            monitor(self, ev)
        return ev

    def probe(self, name, n=1):
        self.probes[name] = self.probes.get(name, 0) + n

    def fault(self, name, n=1):
        self.faults[name] = self.faults.get(name, 0) + n

    def digest(self):
        """Digest of the event log; set-valued fields (source lists built from sets) are order-canonicalised."""
        def canon(x):
            if isinstance(x, dict):
                return {k: (" ".join(sorted(v.split())) if k == "locations" and isinstance(v, str) else canon(v))
                        for k, v in x.items()}
            if isinstance(x, list):
                return [canon(v) for v in x]
            return x
        h = hashlib.sha256()
        for ev in self.events:
            h.update(json.dumps(canon(ev), sort_keys=True, default=str).encode())
        return h.hexdigest()[:20]

    # -- door ----------------------------------------------------------------------------
    def door_request(self, session, action, params):
        from aexpect.exceptions import ShellCmdError
        wid = session.wid
        reqs = []
        for vm in params.objects("vms"):
            vm_params = params.object_params(vm)
            vm_id = vm_params.get("object_id", vm)
            typed = vm_params.object_params("vms")
            do_loc = "show" if action == "check" else action
            state = typed.get(f"{action}_state")
            if state:
                reqs.append({"obj": vm_id, "state": state, "type": "vms",
                             "locations": typed.get(f"{do_loc}_location", ""),
                             "scope": " ".join(sorted(typed.get("pool_scope", "").split())),
                             "mode": typed.get(f"{action}_mode", "")})
            for image in vm_params.objects("images"):
                typed = vm_params.object_params(image).object_params("images")
                state = typed.get(f"{action}_state")
                if state:
                    reqs.append({"obj": f"{vm_id}/{image}", "state": state, "type": "images",
                                 "locations": typed.get(f"{do_loc}_location", ""),
                                 "scope": " ".join(sorted(typed.get("pool_scope", "").split())),
                                 "mode": typed.get(f"{action}_mode", "")})
        name = params.get("name", "")
        answer = True
        if action == "check":
            for r in reqs:
                r["found"] = self.state_where(wid, r["obj"], r["state"], r["locations"], r["scope"], params)
                r["present"] = r["found"] is not None
                answer = answer and r["present"]
        elif action == "unset":
            for r in reqs:
                scopes = r["scope"].split()
                removed = []
                r["removed"] = removed
                item = (r["obj"], r["state"])
                # the documented unset policy: only "f" on a present state removes anything
                mode = r["mode"] or "fi"
                if mode[0:1] != "f":
                    continue
                if "own" in scopes and self.world.has(wid, item):
                    self.world.discard(wid, item)
                    removed.append(wid)
                for loc in r["locations"].split():
                    cls = self.location_class(wid, loc, params)
                    if cls in scopes and cls != "own":
                        store = self.location_store(loc)
                        if self.world.has(store, item):
                            self.world.discard(store, item)
                            removed.append(loc)
        elif action == "get":
            for r in reqs:
                src = self.fetch(wid, r["obj"], r["state"], r["locations"], r["scope"], params)
                r["fetched_from"] = src
        self.log("door." + action, worker=wid, cls=test_class(name), label=short_class(name),
                 name_head=name.split(".vms.")[0],
                 params_worker=self.workers_by_addr.get((str(params.get("nets_shell_host")), str(params.get("nets_shell_port")))),
                 reqs=reqs, answer=answer)
        if action == "check" and not answer:
            raise ShellCmdError("check", 1, "AssertionError")

    def worker_net_params(self, wid):
        for swarm in self._swarms().values():
            for w in swarm.workers:
                if w.id == wid:
                    return w.params
        return None

    def _swarms(self):
        from avocado_i2n.cartgraph.worker import TestSwarm
        return TestSwarm.run_swarms

    def location_class(self, wid, loc, params):
        """Documented proximity class of a source location as seen from worker ``wid``."""
        net, _, path = loc.partition(":")
        shared_pool = params.get("shared_pool", "")
        if not net:
            return "shared" if path == shared_pool else "shared"
        if net == wid:
            return "own"
        me, other = self.worker_net_params(wid), self.worker_net_params(net)
        if me is None or other is None:
            return "unknown"
        if me.get("nets_gateway", "") != other.get("nets_gateway", ""):
            return "cluster"
        if me.get("nets_host", "") != other.get("nets_host", ""):
            return "swarm"
        return "own"

    def location_store(self, loc):
        net, _, path = loc.partition(":")
        return net or "shared"

    def decide_population(self, pool, item):
        fam = self.families
        if self.epoch != 0 and not fam.get("populate_any_epoch"):
            return False
        p = fam.get("p_pop_shared", 0.0) if pool == "shared" else fam.get("p_pop_own", 0.0)
        if p <= 0:
            return False
        present = self.plan.chance(f"pop/{pool}/{short_key(item[0])}/{item[1]}", p)
        if present:
            self.fault("population-shared" if pool == "shared" else "population-own")
            self.log("world.populated", pool=pool, obj=item[0], state=item[1])
        return present

    def state_where(self, wid, obj, state, locations, scope, params):
        """Where a worker sees a state: "own", the first permitted listed location, or None."""
        scopes = scope.split()
        found = None
        if "own" in scopes and self.world.has(wid, (obj, state)):
            found = "own"
        for loc in locations.split():
            cls = self.location_class(wid, loc, params)
            if cls != "own" and cls in scopes and self.world.has(self.location_store(loc), (obj, state)):
                found = found or loc
        return found

    def state_visible(self, wid, obj, state, locations, scope, params):
        return self.state_where(wid, obj, state, locations, scope, params) is not None

    def fetch(self, wid, obj, state, locations, scope, params):
        """Copy a state into the worker's own pool from a permitted location (any listed)."""
        scopes = scope.split()
        if self.world.has(wid, (obj, state)):
            return "own"
        for loc in locations.split():
            cls = self.location_class(wid, loc, params)
            if cls != "own" and cls in scopes and self.world.has(self.location_store(loc), (obj, state)):
                self.world.add(wid, (obj, state))
                return loc
        return None

    # -- execution -----------------------------------------------------------------------
    def duration(self, cls, wid, k, creation=False):
        name = self.families.get("durations", "ties")
        palette = DURATION_PALETTES[name]
        d = self.plan.pick(f"dur/{self.epoch}/{short_key(cls)}/{wid}/{k}", palette, default=palette[0])
        if creation and name == "long":
            # the two steps of an object creation count as one execution: keep their sum within the timeout
            d = d / 2.5
        slow = self.families.get("slow_worker")
        if slow and slow.get("worker") == wid:
            d = d * slow.get("factor", 1)
            self.fault("slow-worker")
        return d

    def outcome(self, cls, label, wid, k):
        fam = self.families
        persistent = fam.get("persistent_fail")
        if persistent and re.search(persistent["match"], label):
            self.fault("persistent-outcome")
            return persistent.get("status", "FAIL")
        p = fam.get("p_fail", 0.0)
        if p <= 0:
            return "PASS"
        bad = fam.get("statuses", ["FAIL", "ERROR", "WARN", "SKIP", "CANCEL", "INTERRUPTED"])
        options = [("PASS", 1.0 - p)] + [(s, p / len(bad)) for s in bad]
        status = self.plan.weighted(f"out/{self.epoch}/{short_key(cls)}/{wid}/{k}", options, default="PASS")
        if status != "PASS":
            self.fault("outcome")
        return status

    def lost_result(self, cls, wid, k):
        p = self.families.get("p_lost", 0.0)
        if p <= 0:
            return False
        lost = self.plan.chance(f"lost/{self.epoch}/{short_key(cls)}/{wid}/{k}", p)
        if lost:
            self.fault("lost-result")
        return lost


def short_key(cls):
    return hashlib.blake2b(cls.encode(), digest_size=6).hexdigest()


async def fake_run_test_task(runner, node):
    """The simulated test execution (replaces ``TestRunner.run_test_task``)."""
    sim = getattr(runner, "_sim", None) or CURRENT["sim"]
    worker = node.started_worker
    wid = worker.id if worker is not None else None
    params = node.params
    name = params["name"]
    cls = test_class(name)
    label = short_class(name)
    uid = node.id_test.uid
    key = (cls, wid)
    k = sim.exec_counts.get(key, 0)
    sim.exec_counts[key] = k + 1
    sim.serial += 1
    serial = sim.serial
    if sim.serial - sim.serial_at_epoch > sim.exec_budget:
        raise ExecBudgetExceeded(f"more than {sim.exec_budget} executions in one job")
    objs = read_objects(params, permanent_vms(node))
    # where the real runner would send the task: the container named by the parameters (lxc) or the
    # worker's remote session (remote)
    executed_on = wid
    if params.get("nets_spawner") == "remote" and worker is not None:
        executed_on = worker.get_session().wid
    elif params.get("nets_spawner") == "lxc":
        executed_on = sim.workers_by_host.get((params.get("nets_gateway", ""), params.get("nets_host", "")), wid)

    # availability of every required state, judged on the world as of this instant
    missing = []
    needs = []
    for o in objs:
        if o["get_state"] in ROOTS:
            continue
        okey = obj_key(o)
        visible = sim.state_visible(wid, okey, o["get_state"], o["locations"], o["pool_scope"], params)
        needs.append({"obj": okey, "state": o["get_state"], "type": o["type"], "vm": o["vm"],
                      "locations": o["locations"], "scope": o["pool_scope"], "available": visible,
                      "permanent": o["permanent"], "get": o["get"], "get_mode": o["get_mode"]})
        if not visible and not o["permanent"]:
            missing.append((okey, o["get_state"]))
    sets = [{"obj": obj_key(o), "state": o["set_state"], "type": o["type"], "vm": o["vm"],
             "unset_mode": o["unset_mode"]}
            for o in objs if o["set_state"] not in ROOTS]
    access = {k2: params[k2] for k2 in params if k2.startswith("nets_") or k2 == "nets"}
    ev = sim.log("start", worker=wid, cls=cls, label=label, name=name, uid=uid, serial=serial, k=k,
                 needs=needs, sets=sets, access=access, type=params.get("type"), executed_on=executed_on,
                 vms=params.get("vms", ""), max_tries=params.get("max_tries"),
                 max_concurrent_tries=params.get("max_concurrent_tries"),
                 pool_scope=params.get("pool_scope", ""), spawner=params.get("nets_spawner"),
                 test_timeout=params.get("test_timeout"),
                 object_root=params.get("object_root"),
                 dry_run=params.get("dry_run", "no"),
                 step_params={k2: params[k2] for k2 in params
                              if k2 == "vm_action" or re.match(r"(check|get|set|unset|push|pop)_(state|mode)", k2)},
                 unknown_placeholder="UNKNOWN" in [r["status"] for r in node.results])
    duration = sim.duration(cls, wid, k, creation=bool(params.get("object_root")))
    sim.running[serial] = ev
    try:
        await asyncio.sleep(duration)
    except asyncio.CancelledError:
        # crash of the job while this execution was in flight
        del sim.running[serial]
        sim.probe("crash-inflight")
        partial = sim.families.get("partial_on_crash", False)
        written = []
        if partial:
            for s in sets:
                if sim.plan.chance(f"partial/{sim.epoch}/{short_key(cls)}/{wid}/{s['obj']}", 0.5):
                    sim.world.add(wid, (s["obj"], s["state"]))
                    written.append([s["obj"], s["state"]])
                    sim.fault("partial-write")
        sim.log("crash", worker=wid, cls=cls, label=label, serial=serial, written=written)
        raise
    del sim.running[serial]
    status = sim.outcome(cls, label, wid, k)
    if missing and status in ("PASS", "WARN"):
        # get_mode=ra: a required state that is nowhere to be found aborts the test
        status = "ERROR"
        sim.probe("missing-state-abort")
    lost = sim.lost_result(cls, wid, k)
    if status in ("PASS", "WARN"):
        # fetch what was required into the own pool, then save what is produced
        for n in needs:
            if n["available"]:
                sim.fetch(wid, n["obj"], n["state"], n["locations"], n["scope"], params)
        for s in sets:
            sim.world.add(wid, (s["obj"], s["state"]))
    if not lost:
        test_id = types.SimpleNamespace(uid=uid, name=name, serial=serial)
        runner.job.result.tests.append({
            "name": test_id, "status": status, "time_elapsed": str(duration),
            "logdir": f"sim/{serial}", "serial": serial,
        })
    sim.assigned.append({"serial": serial, "uid": uid, "name": name, "status": status, "lost": lost,
                         "worker": wid, "cls": cls, "duration": duration})
    sim.log("end", worker=wid, cls=cls, label=label, uid=uid, serial=serial, status=status,
            lost=lost, duration=duration)


def fake_wait_for_login(client, host, port, username, password, prompt, *a, **kw):
    sim = CURRENT["sim"]
    wid = sim.workers_by_addr.get((str(host), str(port)))
    if wid is None:
        raise RuntimeError(f"simulator: no worker listens on {host}:{port}")
    sim.probe("login")
    return FakeSession(wid, host, port)


CURRENT = {"sim": None}
_PATCHED = {}


def install(suite_path=None, home=None):
    """Patch the seams (module/class attributes that the selftests also replace)."""
    from sim import memo
    if home:
        os.makedirs(home, exist_ok=True)
        os.environ["HOME"] = home
    os.environ.setdefault("HOSTNAME", "simhost")
    os.environ.pop("PREFIX", None)
    os.environ["HOSTNAME"] = "simhost"
    memo.install()
    from avocado.core.settings import settings
    if suite_path:
        settings.update_option("i2n.common.suite_path", suite_path)
    import avocado_i2n.cartgraph.node as node_mod
    import avocado_i2n.cartgraph.worker as worker_mod
    import avocado_i2n.cartgraph.graph as graph_mod
    import avocado_i2n.plugins.runner as runner_mod
    if _PATCHED:
        return
    _PATCHED["door"] = node_mod.door
    _PATCHED["wait_for_login"] = worker_mod.remote.wait_for_login
    _PATCHED["run_test_task"] = runner_mod.TestRunner.run_test_task
    _PATCHED["traverse"] = graph_mod.TestGraph.traverse_object_trees
    runner_mod.TestRunner.run_test_task = fake_run_test_task
    runner_mod.SpawnerDispatcher = lambda config, job: _FakeDispatcher()
    worker_mod.TestWorker.start = lambda self: True
    worker_mod.remote = types.SimpleNamespace(wait_for_login=fake_wait_for_login)
    graph_mod.TestGraph.visualize = lambda self, dump_dir, tag="0": None
    real_traverse = _PATCHED["traverse"]

    async def named_traverse(self, worker, params=None):
        task = asyncio.current_task()
        if task is not None:
            task.set_name("w:" + worker.id)
        sim = CURRENT["sim"]
        if sim is not None:
            sim.log("worker.begin", worker=worker.id)
        try:
            result = await real_traverse(self, worker, params)
        except asyncio.CancelledError:
            if sim is not None:
                sim.log("worker.cancelled", worker=worker.id)
            raise
        except BaseException as error:
            if sim is not None:
                sim.log("worker.raised", worker=worker.id, error=type(error).__name__, message=str(error)[:300])
            raise
        if sim is not None:
            sim.log("worker.end", worker=worker.id)
        return result

    graph_mod.TestGraph.traverse_object_trees = named_traverse

    # watchdog against parsing that never ends (it awaits nothing and executes nothing): count constructed test nodes
    real_node_init = node_mod.TestNode.__init__

    def counting_init(self, *a, **kw):
        sim = CURRENT["sim"]
        if sim is not None:
            sim.nodes_created += 1
            if sim.nodes_created - sim.nodes_at_epoch > sim.node_budget:
                raise ExecBudgetExceeded(f"more than {sim.node_budget} test nodes constructed in one job")
        return real_node_init(self, *a, **kw)

    node_mod.TestNode.__init__ = counting_init

    # watchdog against livelocks that never await: count traversal steps per loop iteration
    for cls_, names in ((node_mod.TestNode, ("pick_parent", "pick_child")),):
        for fname in names:
            real = getattr(cls_, fname)

            def make(real, fname):
                def ticking(self, *a, **kw):
                    sim = CURRENT["sim"]
                    if sim is not None and sim.loop is not None:
                        sim.loop.tick(fname)
                    return real(self, *a, **kw)
                ticking.__name__ = fname
                return ticking
            setattr(cls_, fname, make(real, fname))

    # observe the back-off sleeps of the traversal (graph.py) and the result waits (runner.py)
    class _AsyncioProxy:
        def __init__(self, where):
            self._where = where

        def __getattr__(self, name):
            return getattr(asyncio, name)

        async def sleep(self, delay, result=None):
            sim = CURRENT["sim"]
            task = asyncio.current_task()
            if sim is not None:
                sim.log("sleep." + self._where, worker=(task.get_name()[2:] if task else None), delay=delay)
            return await asyncio.sleep(delay, result)

    graph_mod.asyncio = _AsyncioProxy("graph")
    runner_mod.asyncio = _AsyncioProxy("runner")


class _FakeDispatcher(dict):
    def __getitem__(self, key):
        return types.SimpleNamespace(obj=types.SimpleNamespace(kind=key))


class FakeJob:
    def __init__(self, logdir, config, timeout=None, unique_id="simjob"):
        self.logdir = logdir
        self.config = config
        self.timeout = timeout
        self.unique_id = unique_id
        self.result = types.SimpleNamespace(tests=[])
        self.interrupted_reason = None
        self.test_results_path = os.path.join(logdir, "test-results")


def make_loop(sim, step_budget, vtime_budget=None):
    plan = sim.plan

    def tie(name, k):
        return plan.real(f"tie/{sim.epoch}/{name}/{k}", default=0.5)

    loop = VirtualLoop(tie=tie, step_budget=step_budget, vtime_budget=vtime_budget)
    asyncio.set_event_loop(loop)
    sim.loop = loop
    return loop


def register_workers(sim, workers):
    sim.workers_by_addr = {}
    for w in workers:
        addr = (str(w.params["nets_shell_host"]), str(w.params["nets_shell_port"]))
        sim.workers_by_addr[addr] = w.id
    sim.workers_by_host = {(str(w.params.get("nets_gateway", "")), str(w.params.get("nets_host", ""))): w.id for w in workers}


def _unrestricted(graph):
    return {w.id for w in graph.workers.values() if not any(v.strip() for v in w.restrs.values())}


def _picker(sim, tag):
    def pick(key, n):
        from sim.plan import H
        return H(sim.plan.seed, "gc", tag, key) % max(n, 1)
    return pick


def gc_step(sim, graph, props, phase):
    from travsim import graphcheck
    if "C06" in props:
        sim.graph_violations += graphcheck.check_wellformed(graph, phase)
    if "C16" in props:
        sim.graph_violations += graphcheck.check_index(graph, phase, _picker(sim, f"{phase}/{len(graph.nodes)}"), n_queries=6)


def gc_eager(sim, graph, props, restriction, scenario, param_dict):
    from travsim import graphcheck
    from avocado_i2n.cartgraph import TestGraph
    if "C06" in props:
        sim.graph_violations += graphcheck.check_wellformed(graph, "eager-parse", final=True)
    if "C09" in props:
        sim.graph_violations += graphcheck.check_bridging(graph, "eager-parse", _unrestricted(graph))
        sim.graph_violations += graphcheck.check_worker_copies(graph, "eager-parse", _unrestricted(graph))
        if scenario.get("parse_twice"):
            again = TestGraph.parse_object_trees(None, restriction, "", dict(scenario["vm_strs"]), dict(param_dict))
            sim.graph_violations += graphcheck.compare_twice(graph, again, "eager-parse-twice")
            sim.graph_probes["parsed-twice"] = sim.graph_probes.get("parsed-twice", 0) + 1
            # parse_workers rebuilt the swarm registry with new worker objects: restore the traversed graph's ones
            from avocado_i2n.cartgraph.worker import TestSwarm
            TestSwarm.run_swarms = {}
            for w in graph.workers.values():
                TestSwarm.run_swarms.setdefault(w.swarm_id, TestSwarm(w.swarm_id, [])).workers.append(w)
    if "C16" in props:
        sim.graph_violations += graphcheck.check_index(graph, "eager-parse", _picker(sim, "eager"), n_queries=16)
    if "C07" in props:
        from travsim import resolver
        sim.graph_violations += resolver.check_dependencies(graph, resolver.suite_path_of(scenario), "eager-parse")


def gc_final(sim, graph, props, restriction, scenario, param_dict, shadow):
    from travsim import graphcheck
    from avocado_i2n.cartgraph import TestGraph
    lazy = scenario.get("mode", "lazy") != "eager"
    if "C06" in props:
        sim.graph_violations += graphcheck.check_wellformed(graph, "end-of-run", final=True)
    if "C09" in props:
        sim.graph_violations += graphcheck.check_bridging(graph, "end-of-run", _unrestricted(graph))
        if lazy and scenario.get("compare_eager", True) and str(param_dict.get("dry_run", "no")) != "yes":
            from avocado_i2n.cartgraph.worker import TestSwarm
            saved = TestSwarm.run_swarms
            try:
                eager = TestGraph.parse_object_trees(None, restriction, "", dict(scenario["vm_strs"]), dict(param_dict))
            except Exception as error:
                eager = None
                sim.graph_probes["eager-reference-rejected"] = sim.graph_probes.get("eager-reference-rejected", 0) + 1
            finally:
                TestSwarm.run_swarms = saved
            if eager is not None:
                sim.graph_violations += graphcheck.compare_lazy_eager(graph, eager, "lazy-vs-eager")
                sim.graph_probes["lazy-eager-compared"] = sim.graph_probes.get("lazy-eager-compared", 0) + 1
    if "C09" in props and shadow is not None:
        sim.graph_violations += shadow.check(graph, "end-of-run", prop="C09")
    if "C07" in props and lazy:
        from travsim import resolver
        sim.graph_violations += resolver.check_dependencies(graph, resolver.suite_path_of(scenario), "end-of-run")
    if "C16" in props:
        sim.graph_violations += graphcheck.check_index(graph, "end-of-run", _picker(sim, "final"), n_queries=24)
        if shadow is not None:
            sim.graph_violations += shadow.check(graph, "end-of-run")
            sim.graph_probes["register-visits"] = sum(shadow.counts.values())


def run_epoch(sim, epoch_cfg, logs_dir):
    """Run one simulated job (epoch) with the real ``TestRunner.run_workers``.

    Returns a dict describing how the epoch ended.
    """
    import avocado_i2n.cartgraph.node as node_mod
    from avocado_i2n.cartgraph import TestGraph, TestWorker
    from avocado_i2n.plugins.runner import TestRunner
    from avocado.core.suite import TestSuite

    scenario = sim.scenario
    CURRENT["sim"] = sim
    node_mod.door = FakeDoor(sim)
    TestWorker._session_cache = {}
    sim.running = {}
    sim.serial_at_epoch = sim.serial
    sim.nodes_at_epoch = sim.nodes_created

    param_dict = dict(scenario.get("params", {}))
    param_dict["nets"] = scenario["nets"]
    param_dict.update(epoch_cfg.get("params", {}))
    job_name = f"job{sim.epoch}"
    if epoch_cfg.get("replay") is not None:
        param_dict["replay"] = epoch_cfg["replay"]
    config = {"param_dict": param_dict, "vm_strs": dict(scenario["vm_strs"]),
              "tests_str": scenario["tests"], "datadir.paths.logs_dir": logs_dir}
    job = FakeJob(os.path.join(logs_dir, job_name), config, timeout=epoch_cfg.get("crash_at"))
    os.makedirs(job.logdir, exist_ok=True)
    runner = TestRunner()
    runner.job = job
    runner._sim = sim
    sim.runner = runner

    graph_props = scenario.get("graph_props")
    shadow = None
    if graph_props:
        from travsim import graphcheck
        real_expand = TestGraph.parse_paths_to_object_roots

        def checked_expand(self, test_node, test_object, params=None):
            yield from real_expand(self, test_node, test_object, params)
            if sim.graph is self:
                sim.graph_probes["lazy-expansion-checked"] = sim.graph_probes.get("lazy-expansion-checked", 0) + 1
                gc_step(sim, self, graph_props, "lazy-expansion")

        TestGraph.parse_paths_to_object_roots = checked_expand
    step_budget = epoch_cfg.get("step_budget", scenario.get("step_budget", 150_000))
    loop = make_loop(sim, step_budget, epoch_cfg.get("vtime_budget", scenario.get("vtime_budget")))
    ending = {"epoch": sim.epoch, "how": "completed", "error": None}
    sim.log("epoch.begin", job=job_name, params={k: str(v) for k, v in sorted(param_dict.items())},
            world=sim.world.digest())
    try:
        restriction = scenario["tests"]
        if scenario.get("mode", "lazy") == "eager":
            if graph_props and ("C16" in graph_props or "C09" in graph_props):
                shadow = graphcheck.RegisterShadow()
                shadow.install()
            graph = TestGraph.parse_object_trees(
                None, restriction, "", dict(scenario["vm_strs"]), dict(param_dict))
            suite = graph
            if graph_props:
                gc_eager(sim, graph, graph_props, restriction, scenario, param_dict)
        else:
            if graph_props and ("C16" in graph_props or "C09" in graph_props):
                shadow = graphcheck.RegisterShadow()
                shadow.install()
            flat = TestGraph.parse_flat_nodes(restriction, dict(param_dict))
            suite = TestSuite.__new__(TestSuite)
            suite.tests = flat
            graph = None
        # the workers are only known after run_workers parsed them: hook new_workers
        real_new_workers = TestGraph.new_workers

        def new_workers(self, workers):
            real_new_workers(self, workers)
            sim.graph = self
            register_workers(sim, list(self.workers.values()))
            for hook in sim.scenario.get("_graph_hooks", []):
                hook(sim, self)

        TestGraph.new_workers = new_workers
        try:
            if graph is not None:
                sim.graph = graph
                register_workers(sim, list(graph.workers.values()))
                for hook in sim.scenario.get("_graph_hooks", []):
                    hook(sim, graph)
            runner.run_workers(suite, param_dict)
        finally:
            TestGraph.new_workers = real_new_workers
            if graph_props:
                TestGraph.parse_paths_to_object_roots = real_expand
        if graph_props and sim.graph is not None:
            gc_final(sim, sim.graph, graph_props, restriction, scenario, param_dict, shadow)
    except asyncio.TimeoutError:
        ending["how"] = "crashed"
        sim.fault("crash-restart")
    except SimDeadlock as error:
        ending["how"] = "deadlock"
        ending["error"] = str(error)
    except StepBudgetExceeded as error:
        ending["how"] = "step-budget"
        ending["error"] = str(error)
    except SpinDetected as error:
        ending["how"] = "spin"
        ending["error"] = str(error)
    except ExecBudgetExceeded as error:
        ending["how"] = "exec-budget"
        ending["error"] = str(error)
    except VirtualTimeBudgetExceeded as error:
        ending["how"] = "vtime-budget"
        ending["error"] = str(error)
    except Exception as error:  # raised by repo code during the run: an event oracles judge
        import traceback
        ending["how"] = "raised"
        ending["error"] = f"{type(error).__name__}: {error}"[:500]
        ending["error_type"] = type(error).__name__
        ending["traceback"] = traceback.format_exc()[-3000:]
    ending["steps"] = loop.steps
    ending["nodes_constructed"] = sim.nodes_created - sim.nodes_at_epoch
    ending["max_steps_without_await"] = loop.max_spin
    ending["vtime"] = round(loop.time(), 4)
    ending["pending_tasks"] = 0
    try:
        pending = [t for t in asyncio.all_tasks(loop) if not t.done()]
        ending["pending_tasks"] = len(pending)
        for t in pending:
            t.cancel()
        if pending:
            # let cancellations unwind (no virtual time passes for them)
            loop.step_budget = loop.steps + 10_000
            try:
                loop.run_until_complete(asyncio.gather(*pending, return_exceptions=True))
            except Exception:
                pass
    finally:
        try:
            ok = None
            if ending["how"] == "completed":
                ok = bool(runner.all_results_ok())
            ending["all_results_ok"] = ok
        except Exception as error:
            ending["all_results_ok"] = f"raised {type(error).__name__}"
        # what a real job leaves behind for a later replay
        results = [{"name": t["name"].name, "status": t["status"], "time_elapsed": t["time_elapsed"],
                    "id": t["name"].uid + "-" + t["name"].name, "logdir": t["logdir"]}
                   for t in job.result.tests]
        with open(os.path.join(job.logdir, "results.json"), "w") as handle:
            json.dump({"tests": results}, handle)
        ending["results"] = [{"uid": t["name"].uid, "name": t["name"].name, "status": t["status"],
                              "serial": t.get("serial")} for t in job.result.tests]
        # snapshot of what the traversal recorded on the nodes
        node_results = []
        graph = sim.graph
        if graph is not None:
            for node in graph.nodes:
                if node.is_flat():
                    continue
                for r in node.results:
                    node_results.append({"cls": test_class(node.params["name"]), "name": node.params["name"],
                                         "status": r.get("status"), "rname": r.get("name"),
                                         "serial": r.get("serial")})
        ending["node_results"] = node_results
        sim.log("epoch.end", how=ending["how"], error=ending["error"], steps=ending["steps"],
                vtime=ending["vtime"], world=sim.world.digest())
        loop.close()
        asyncio.set_event_loop(None)
    return ending


# --------------------------------------------------------------------------------------------
# manual tools (intertest_setup.update, Manu.run): C15, C20
# --------------------------------------------------------------------------------------------

def run_tool(sim, call, logs_dir):
    """Run ``call(new_job_patch_installed)`` (a tool of intertest_setup or Manu.run) under the simulator."""
    import contextlib
    import avocado_i2n.cartgraph.node as node_mod
    import avocado_i2n.intertest_setup as intertest
    from avocado_i2n.cartgraph import TestGraph, TestWorker

    CURRENT["sim"] = sim
    node_mod.door = FakeDoor(sim)
    TestWorker._session_cache = {}
    sim.running = {}
    sim.serial_at_epoch = sim.serial
    sim.nodes_at_epoch = sim.nodes_created
    scenario = sim.scenario
    loop = make_loop(sim, scenario.get("step_budget", 150_000))
    jobs = []

    @contextlib.contextmanager
    def fake_new_job(config):
        job = FakeJob(os.path.join(logs_dir, f"job{len(jobs)}"), config, timeout=None)
        os.makedirs(job.logdir, exist_ok=True)
        jobs.append(job)
        loader, runner = config["graph"].l, config["graph"].r
        loader.logdir = job.logdir
        runner.job = job
        runner._sim = sim
        sim.log("job.begin", n=len(jobs))
        try:
            yield job
        finally:
            sim.log("job.end", n=len(jobs), results=len(job.result.tests))

    real_new_job = intertest.new_job
    real_new_workers = TestGraph.new_workers

    def new_workers(self, workers):
        real_new_workers(self, workers)
        sim.graph = self
        register_workers(sim, list(self.workers.values()))

    intertest.new_job = fake_new_job
    TestGraph.new_workers = new_workers
    ending = {"epoch": sim.epoch, "how": "completed", "error": None, "retval": None}
    sim.log("epoch.begin", job="tool", params={}, world=sim.world.digest())
    try:
        ending["retval"] = call()
    except (SimDeadlock, StepBudgetExceeded, SpinDetected, ExecBudgetExceeded, VirtualTimeBudgetExceeded) as error:
        ending["how"] = "no-termination"
        ending["error"] = f"{type(error).__name__}: {error}"
    except Exception as error:
        import traceback
        ending["how"] = "raised"
        ending["error"] = f"{type(error).__name__}: {error}"[:500]
        ending["error_type"] = type(error).__name__
        ending["traceback"] = traceback.format_exc()[-3000:]
    finally:
        intertest.new_job = real_new_job
        TestGraph.new_workers = real_new_workers
    ending["steps"] = loop.steps
    ending["vtime"] = round(loop.time(), 4)
    ending["jobs"] = len(jobs)
    ending["results"] = [[{"uid": t["name"].uid, "name": t["name"].name, "status": t["status"]} for t in job.result.tests]
                         for job in jobs]
    ending["node_results"] = []
    sim.log("epoch.end", how=ending["how"], error=ending["error"], steps=ending["steps"], vtime=ending["vtime"],
            world=sim.world.digest())
    try:
        pending = [t for t in asyncio.all_tasks(loop) if not t.done()]
        for t in pending:
            t.cancel()
    except Exception:
        pass
    loop.close()
    asyncio.set_event_loop(None)
    return ending
